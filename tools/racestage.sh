#!/bin/bash
# racestage.sh <repo> <scratch>: supplementary stage of the C19 thorough tier (DESIGN §4):
# the unmodified working tree, real goroutines, real sync/math-rand, -race. Uncontrolled
# schedule: runtime monitoring, not simulation. Exit 0 ok, 1 violation (race report, layout,
# duplicate, bit coverage), 2 infrastructure.
set -u
REPO=$1; S=$2
export GOFLAGS=-mod=mod GOPROXY=off GOSUMDB=off GOTOOLCHAIN=local
HERE="$(cd "$(dirname "$0")/.." && pwd)"
OUT="${VERIF_OUT:-$HERE}"
R="$S/race"
mkdir -p "$R/util" && rsync -a --exclude .git "$REPO"/ "$R/util/" || exit 2
mkdir -p "$R/util/vsimrace" && cp "$HERE/sim/racestage/main.go" "$R/util/vsimrace/" || exit 2
if ! (cd "$R/util" && CGO_ENABLED=1 go build -race -o "$R/racestage" ./vsimrace) 2>"$R/build.log"; then
  echo "racestage: cannot build with -race in this sandbox ($(head -c 300 "$R/build.log" | tr '\n' ' ')); stage skipped, recorded in evidence"
  jq '.coverage.components.uncontrolled_stage = {"ran": false, "reason": "go build -race failed"}' "$OUT/evidence/C19.json" > "$R/ev.json" && cp "$R/ev.json" "$OUT/evidence/C19.json"
  exit 0
fi
total=0; runs=0
log="$R/race.log"; : > "$log"
for gmp in 1 4 16; do
  for cfg in "1 200000" "2 100000" "8 50000" "64 8000"; do
    set -- $cfg
    GOMAXPROCS=$gmp GORACE="halt_on_error=1 exitcode=66" "$R/racestage" $1 $2 >>"$log" 2>&1
    code=$?
    runs=$((runs+1)); total=$((total + $1 * $2))
    if [ $code -ne 0 ]; then
      mkdir -p "$OUT/replays"
      rp="$OUT/replays/C19-racestage-g$1-p$gmp.json"
      jq -n --arg cmd "GOMAXPROCS=$gmp racestage $1 $2 (go build -race of the unmodified tree)" --arg out "$(tail -c 4000 "$log")" --argjson code $code \
        '{property:"C19",format:1,note:"supplementary uncontrolled real-thread stage (runtime monitoring): not exactly replayable; re-run the command",command:$cmd,exit_code:$code,output:$out}' > "$rp"
      tail -30 "$log"
      echo "VIOLATION property=C19 replay=$rp"
      exit 1
    fi
  done
done
jq --argjson runs $runs --argjson ids $total '.coverage.components.uncontrolled_stage = {"ran": true, "kind": "runtime monitoring under go build -race, real sync.Mutex and math/rand source, schedule not controlled", "process_runs": $runs, "ids_drawn": $ids, "gomaxprocs": [1,4,16], "goroutines": [1,2,8,64], "violations": 0}' "$OUT/evidence/C19.json" > "$R/ev.json" && cp "$R/ev.json" "$OUT/evidence/C19.json"
echo "racestage: ok, $runs process runs, $total ids under -race"
exit 0
