#!/bin/bash
# sensitivity.sh <property> [name-filter]
# Development-time self-test: applies each patch in sensitivity/<property>/ (and
# seeded/*/patch.diff for that property when present) to a scratch copy of /repo, checks it
# still compiles and passes the package tests, and runs the quick check against the copy.
# *.detect.diff must give exit 1, *.quiet.diff must give exit 0. /repo is never touched.
set -u
ID=${1:?property}
FILTER=${2:-}
HERE="$(cd "$(dirname "$0")/.." && pwd)"
export GOFLAGS=-mod=mod GOPROXY=off GOSUMDB=off GOTOOLCHAIN=local
W=$(mktemp -d -t vsens-XXXXXX)
trap 'rm -rf "$W"' EXIT
mkdir -p "$W/home"
cp "$HERE/known-findings.txt" "$W/home/" 2>/dev/null || true
fail=0
for d in "$HERE"/sensitivity/$ID/*.diff; do
  name=$(basename "$d" .diff)
  case "$name" in *"$FILTER"*) ;; *) continue;; esac
  expect=${name##*.}
  rm -rf "$W/repo"; mkdir -p "$W/repo"
  rsync -a --exclude .git /repo/ "$W/repo/"
  if ! (cd "$W/repo" && patch -p1 -s < "$d"); then echo "$name: PATCH FAILED"; fail=1; continue; fi
  if [ "${SENS_SKIP_TESTS:-0}" != 1 ]; then
    if ! (cd "$W/repo" && go build ./... && go test -vet=off -count=1 ./... >/dev/null 2>&1); then tests="tests-FAIL"; else tests="tests-pass"; fi
  else tests="tests-skipped"; fi
  t0=$(date +%s.%N)
  out=$(VERIF_REPO="$W/repo" VERIF_OUT="$W/home" VERIF_SELFTEST_K=${SENS_K:-4} "$HERE/tools/check.sh" "$ID" ${SENS_TIER:-quick} 2>&1); code=$?
  t1=$(date +%s.%N)
  inv=$(echo "$out" | grep -o 'invariant=[^ ]*' | head -1)
  verdict=BAD
  if [ "$expect" = detect ] && [ $code -eq 1 ]; then verdict=ok; fi
  if [ "$expect" = quiet ] && [ $code -eq 0 ]; then verdict=ok; fi
  # .either.diff: a change whose verdict legitimately depends on what the batch happens to reach
  if [ "$expect" = either ] && { [ $code -eq 0 ] || [ $code -eq 1 ]; }; then verdict=ok; fi
  # .limit.diff: correct code that is beyond what the rewrite step can instrument (documented in
  # DESIGN section 9): it must never be reported as a violation; "no verdict" (exit 2) is accepted
  if [ "$expect" = limit ] && { [ $code -eq 0 ] || [ $code -eq 2 ]; }; then verdict=ok; fi
  [ $verdict = ok ] || fail=1
  printf "%-34s expect=%-6s exit=%d %-28s %s %5.1fs %s\n" "$name" "$expect" "$code" "$inv" "$tests" "$(echo "$t1 - $t0" | bc)" "$verdict"
  if [ $verdict != ok ] || [ "${SENS_VERBOSE:-0}" = 1 ]; then echo "$out" | tail -15 | sed 's/^/    /'; fi
done
exit $fail
