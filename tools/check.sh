#!/bin/bash
# check.sh <property> <quick|thorough>
# Builds the simulator inside a scratch copy of /repo's current working tree, runs the
# check, removes the scratch. Exit 0 held / 1 violation / 2 infrastructure.
set -u
ID=${1:?property id}
TIER=${2:-${VERIF_TIER:-quick}}
export GOFLAGS=-mod=mod GOPROXY=off GOSUMDB=off GOTOOLCHAIN=local
HERE="$(cd "$(dirname "$0")/.." && pwd)"
# VERIF_OUT redirects evidence/replays/known-findings (used by tools/sensitivity.sh only)
export VERIF_HOME="${VERIF_OUT:-$HERE}"
REPO=${VERIF_REPO:-/repo}
S=$(mktemp -d -t vsim-XXXXXX) || { echo "INFRA $ID: mktemp failed"; exit 2; }
trap 'rm -rf "$S"' EXIT
"$HERE/tools/mkscratch.sh" "$ID" "$REPO" "$S" || { echo "INFRA $ID: scratch build failed (not a verdict on the property)"; exit 2; }
mkdir -p "$S/out" "$VERIF_HOME/evidence" "$VERIF_HOME/replays"
export VERIF_SCRATCH="$S/out"
"$S/bin/verif" check "$ID" "$TIER"
code=$?
if [ $code -eq 0 ] && [ "$ID" = C19 ] && [ "$TIER" = thorough ] && [ -x "$HERE/tools/racestage.sh" ]; then
  "$HERE/tools/racestage.sh" "$REPO" "$S"
  code=$?
fi
case $code in 0|1) exit $code;; *) exit 2;; esac
