#!/bin/bash
# mkscratch.sh <property> <repo> <scratch dir>
# rsync the working tree, add the harness packages (same module: no replace, no go.sum
# surgery), substitute imports for C19, build $S/bin/verif.
set -eu
ID=$1; REPO=$2; S=$3
export GOFLAGS=-mod=mod GOPROXY=off GOSUMDB=off GOTOOLCHAIN=local
HOME_V="$(cd "$(dirname "$0")/.." && pwd)"
mkdir -p "$S/util" "$S/bin"
rsync -a --exclude .git "$REPO"/ "$S/util/"
mkdir -p "$S/util/internal/vsim" "$S/util/vsimcmd"
for p in core sched vsync vrand vrand2 vcrand vtime vcontext vchan vatomic vrace c19 c17 c20; do
  [ -d "$HOME_V/sim/$p" ] && cp -r "$HOME_V/sim/$p" "$S/util/internal/vsim/$p"
done
cp "$HOME_V"/sim/cmd/*.go "$S/util/vsimcmd/"
TAGS=vsim_plain
if [ "$ID" = C19 ]; then
  TAGS=vsim_c19
  # packages whose sync/rand/time imports are substituted: uu and every in-module package
  # that is not one of the other value types, the test helpers or the harness itself
  PKGS=$(cd "$S/util" && find . -type d -not -path './.git*' -not -path './internal/vsim*' -not -path './vsimcmd*' \
      | sed 's|^\./||' | grep -v -E '^(\.|date|roman|sem|size|test)(/|$)' | sort | tr '\n' ' ')
  (cd "$HOME_V/sim/rewrite" && go run main.go "$S/util" "$S/util/internal/vsim/c19/scan_gen.go" $PKGS)
fi
if [ "$ID" = C17 ]; then
  # C17 runs the real packages; only the per-run reset of their package-level state is generated
  (cd "$HOME_V/sim/rewrite" && go run main.go -reset "$S/util" "$S/util/internal/vsim/c17/reset_gen.go" date roman sem size uu)
else
  # keep the c17 package compilable in the other binaries
  printf 'package c17\n\nfunc resetPackages() {}\n' > "$S/util/internal/vsim/c17/reset_gen.go"
fi
if [ "$ID" = C20 ]; then
  # the helpers under test run unmodified; only the per-run reset of package test's state is generated
  (cd "$HOME_V/sim/rewrite" && go run main.go -reset "$S/util" "$S/util/internal/vsim/c20/reset_gen.go" test)
else
  printf 'package c20\n\nfunc resetPackages() {}\n' > "$S/util/internal/vsim/c20/reset_gen.go"
fi
(cd "$S/util" && go build -tags "$TAGS" -o "$S/bin/verif" ./vsimcmd)
