#!/bin/bash
# selftest.sh: litmus tests of the simulator's own primitives (development aid).
set -u
HERE="$(cd "$(dirname "$0")/.." && pwd)"
export GOFLAGS=-mod=mod GOPROXY=off GOSUMDB=off GOTOOLCHAIN=local
S=$(mktemp -d -t vsim-XXXXXX); trap 'rm -rf "$S"' EXIT
"$HERE/tools/mkscratch.sh" C19 "${VERIF_REPO:-/repo}" "$S" >/dev/null || exit 2
cp -r "$HERE/sim/litmus" "$S/util/internal/vsim/litmus"
cd "$S/util" && go test -count=1 ${1:+-run "$1"} ${V:+-v} ./internal/vsim/litmus/
