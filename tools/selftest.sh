#!/bin/bash
# selftest.sh: litmus tests of the simulator's own primitives (development aid).
set -u
HERE="$(cd "$(dirname "$0")/.." && pwd)"
export GOFLAGS=-mod=mod GOPROXY=off GOSUMDB=off GOTOOLCHAIN=local
S=$(mktemp -d -t vsim-XXXXXX); trap 'rm -rf "$S"' EXIT
"$HERE/tools/mkscratch.sh" C19 "${VERIF_REPO:-/repo}" "$S" >/dev/null || exit 2
cp -r "$HERE/sim/litmus" "$S/util/internal/vsim/litmus"
# every stand-in package compiles and vets, whether or not the unchanged tree imports it (a stand-in
# nobody imports today is only compiled when an edited tree starts to use the real package)
(cd "$S/util" && go build -tags vsim_c19 ./internal/vsim/... && go vet -tags vsim_c19 ./internal/vsim/vsync ./internal/vsim/vatomic ./internal/vsim/vtime ./internal/vsim/vrand ./internal/vsim/vrand2 ./internal/vsim/vcrand ./internal/vsim/vcontext ./internal/vsim/vchan ./internal/vsim/vrace ./internal/vsim/sched 2>&1 | grep -v "^#" | grep -v "possible misuse of unsafe.Pointer\|copylocks\|passes lock by value" | head -20) || { echo "selftest: a stand-in package does not build"; exit 2; }
cd "$S/util" && go test -count=1 ${1:+-run "$1"} ${V:+-v} ./internal/vsim/litmus/
