#!/bin/bash
# seedcheck.sh <property> <name> <src dir with patch.diff + demo *_test.go> <package dir for the demo> [demo -run regexp]
# Confirms a seeded change independently, in scratch copies of /repo (never /repo itself):
#   1. patch applies, tree builds, the existing suite passes with it;
#   2. the demonstration fails with the change and passes without it;
#   3. runs the quick check of <property> against the changed copy and records the verdict.
# On success the change is stored as /verif/seeded/<name>/ (patch.diff, demo, notes, meta.json).
set -u
ID=$1; NAME=$2; SRC=$3; PKG=$4; RUN=${5:-.}
HERE="$(cd "$(dirname "$0")/.." && pwd)"
export GOFLAGS=-mod=mod GOPROXY=off GOSUMDB=off GOTOOLCHAIN=local
W=$(mktemp -d -t vseed-XXXXXX); trap 'rm -rf "$W"' EXIT
mkdir -p "$W/clean" "$W/mut" "$W/home"
rsync -a --exclude .git /repo/ "$W/clean/"; rsync -a --exclude .git /repo/ "$W/mut/"
cp "$HERE/known-findings.txt" "$W/home/" 2>/dev/null
(cd "$W/mut" && patch -p1 -s < "$SRC/patch.diff") || { echo "$NAME: patch does not apply"; exit 3; }
(cd "$W/mut" && go build ./... ) || { echo "$NAME: does not build"; exit 3; }
# a change that ADDS an API cannot have a demonstration that compiles on the unchanged tree: the
# author then supplies reference.diff, a correct implementation of the same API, as the passing side
if [ -f "$SRC/reference.diff" ]; then (cd "$W/clean" && patch -p1 -s < "$SRC/reference.diff") || { echo "$NAME: reference.diff does not apply"; exit 3; }; REF=1; else REF=0; fi
suite=pass; (cd "$W/mut" && go test -vet=off -count=1 ./... >"$W/suite.log" 2>&1) || suite=FAIL
demos=$(cd "$SRC" && ls *_test.go)
mkdir -p "$W/mut/$PKG" "$W/clean/$PKG"; for f in $demos; do cp "$SRC/$f" "$W/mut/$PKG/zz_$f"; cp "$SRC/$f" "$W/clean/$PKG/zz_$f"; done
demo_mut=pass; (cd "$W/mut" && go test -vet=off -count=1 ${SEED_RACE:+-race} -run "$RUN" ./$PKG/ >"$W/demo_mut.log" 2>&1) || demo_mut=FAIL
demo_clean=pass; (cd "$W/clean" && go test -vet=off -count=1 ${SEED_RACE:+-race} -run "$RUN" ./$PKG/ >"$W/demo_clean.log" 2>&1) || demo_clean=FAIL
for f in $demos; do rm -f "$W/mut/$PKG/zz_$f"; done
out=$(VERIF_REPO="$W/mut" VERIF_OUT="$W/home" VERIF_SELFTEST_K=4 "$HERE/tools/check.sh" "$ID" ${SEED_TIER:-quick} 2>&1); code=$?
inv=$(echo "$out" | grep -o 'invariant=[^ ]*' | sort | uniq -c | sort -rn | head -3 | awk '{print $2"x"$1}' | tr '\n' ' ')
echo "$NAME: suite=$suite demo(changed)=$demo_mut demo(clean)=$demo_clean check_exit=$code $inv"
if [ "$suite" = pass ] && [ "$demo_mut" = FAIL ] && [ "$demo_clean" = pass ]; then
  D="$HERE/seeded/$NAME"; mkdir -p "$D"
  cp "$SRC/patch.diff" "$D/"; for f in $demos; do cp "$SRC/$f" "$D/$f"; done
  [ -f "$SRC/notes.md" ] && cp "$SRC/notes.md" "$D/notes.md"
  [ -f "$SRC/reference.diff" ] && cp "$SRC/reference.diff" "$D/reference.diff"
  detail=$(echo "$out" | grep -m1 '^replayed:' | cut -c1-600)
  jq -n --arg p "$ID" --arg name "$NAME" --arg pkg "$PKG" --arg run "$RUN" --arg suite "$suite" --arg dm "$demo_mut" --arg dc "$demo_clean" --argjson code $code --arg inv "$inv" --arg detail "$detail" --arg race "${SEED_RACE:-}" \
    '{property:$p,name:$name,demo_package:$pkg,demo_run:$run,demo_needs_race:($race!=""),confirmed:{existing_suite_with_change:$suite,demo_with_change:$dm,demo_without_change:$dc,how:"tools/seedcheck.sh: scratch copies of /repo, patch -p1, go test -vet=off -count=1 ./..., demo copied into the package and run with and without the change"},check:{tier:"quick",exit:$code,detected:($code==1),invariants:$inv,first_report:$detail}}' > "$D/meta.json"
  echo "  stored in seeded/$NAME"
else
  echo "  NOT kept (see logs)"; tail -5 "$W/suite.log" "$W/demo_mut.log" "$W/demo_clean.log" 2>/dev/null | cut -c1-200
fi
[ "${SEED_VERBOSE:-0}" = 1 ] && echo "$out" | tail -12
exit 0
