#!/bin/bash
# replay.sh <replay file>: rebuilds the simulator from /repo's working tree and re-executes
# the recorded tape in a fresh process. Exit 1 + VIOLATION line if it reproduces exactly.
set -u
F=${1:?replay file}
export GOFLAGS=-mod=mod GOPROXY=off GOSUMDB=off GOTOOLCHAIN=local
HERE="$(cd "$(dirname "$0")/.." && pwd)"
export VERIF_HOME="${VERIF_OUT:-$HERE}"
ID=$(jq -r .property "$F") || exit 2
REPO=${VERIF_REPO:-/repo}
S=$(mktemp -d -t vsim-XXXXXX) || exit 2
trap 'rm -rf "$S"' EXIT
"$HERE/tools/mkscratch.sh" "$ID" "$REPO" "$S" >/dev/null || { echo "INFRA $ID: scratch build failed"; exit 2; }
"$S/bin/verif" replay "$ID" "$F"
code=$?
case $code in 0|1) exit $code;; *) exit 2;; esac
