#!/bin/bash
# corpus.sh: development aid (not a registered check). Two questions about the import
# substitution and the textual rewrites that the C19 check applies to an edited tree:
#   1. do they preserve what the repository's own suite pins? Every package of /repo is
#      rewritten (not only uu) and `go test ./...` is run on the result: outside a simulated
#      run the stand-ins must behave like the originals;
#   2. do they cope with concurrent code nobody here wrote? golang.org/x/sync (errgroup,
#      singleflight, semaphore, syncmap; from the module cache, offline) is copied into the
#      scratch module, rewritten, compiled, and used inside simulated runs (sim/corpus): correct
#      uses must never be flagged, a semaphore of weight 2 around a write must be.
# Exit 0 if both hold, 2 otherwise.
set -u
HERE="$(cd "$(dirname "$0")/.." && pwd)"
export GOFLAGS=-mod=mod GOPROXY=off GOSUMDB=off GOTOOLCHAIN=local VERIF_HOME="$HERE"
S=$(mktemp -d -t vsim-XXXXXX); trap 'rm -rf "$S"' EXIT
"$HERE/tools/mkscratch.sh" C19 "${VERIF_REPO:-/repo}" "$S" >/dev/null 2>&1 || { echo "corpus: scratch build failed"; exit 2; }
rc=0
# --- 1. the repository's own suite on a fully rewritten tree
rsync -a --exclude .git "${VERIF_REPO:-/repo}"/ "$S/util/"
rm -f "$S/util/internal/vsim/c19/scan_gen.go"
(cd "$HERE/sim/rewrite" && go run main.go "$S/util" "$S/util/internal/vsim/c19/scan_gen.go" constraint internal uu date roman sem size test >/dev/null) || rc=2
(cd "$S/util" && go test -vet=off -tags vsim_c19 -count=1 ./constraint ./internal ./uu ./date ./roman ./sem ./size ./test 2>&1 | tail -9) || rc=2
(cd "$S/util" && go test -vet=off -tags vsim_c19 -count=1 ./constraint ./internal ./uu ./date ./roman ./sem ./size ./test >/dev/null 2>&1) || { echo "corpus: the repository's suite fails on the rewritten tree"; rc=2; }
# --- 2. x/sync as a corpus
X=$(ls -d "$(go env GOMODCACHE)"/golang.org/x/sync@v0.10.0 2>/dev/null | head -1)
if [ -z "$X" ]; then echo "corpus: golang.org/x/sync not in the module cache, part 2 skipped"; exit $rc; fi
for p in errgroup singleflight semaphore syncmap; do
  mkdir -p "$S/util/xs/$p"; cp "$X/$p"/*.go "$S/util/xs/$p/"; rm -f "$S/util/xs/$p"/*_test.go
done
chmod -R u+w "$S/util/xs"
mkdir -p "$S/util/xs/use"; cp "$HERE/sim/corpus/use_test.go" "$S/util/xs/use/"
(cd "$HERE/sim/rewrite" && go run main.go "$S/util" "$S/xs_scan.go" xs/errgroup xs/singleflight xs/semaphore xs/syncmap >/dev/null) || rc=2
(cd "$S/util" && go build -tags vsim_c19 ./xs/... && go test -vet=off -tags vsim_c19 -count=1 ./xs/use/) || { echo "corpus: x/sync does not build or misbehaves under the simulator"; rc=2; }
# --- 3. more code nobody here wrote, compile only: porcupine (goroutines, select with time.After,
# atomics), the newest x/sync in the cache, gofail's runtime (package-level maps behind locks)
MC=$(go env GOMODCACHE); dirs=""
if [ -d "$MC/github.com/anishathalye/porcupine@v1.3.0" ]; then
  cp -r "$MC/github.com/anishathalye/porcupine@v1.3.0" "$S/util/xs/porcupine"; chmod -R u+w "$S/util/xs/porcupine"
  rm -rf "$S/util/xs/porcupine"/*_test.go "$S/util/xs/porcupine/go.mod" "$S/util/xs/porcupine/go.sum" "$S/util/xs/porcupine/test_data"; dirs="$dirs xs/porcupine"
fi
if [ -d "$MC/golang.org/x/sync@v0.23.0" ]; then
  for p in errgroup singleflight semaphore syncmap; do mkdir -p "$S/util/xs/n$p"; cp "$MC/golang.org/x/sync@v0.23.0/$p"/*.go "$S/util/xs/n$p/"; rm -f "$S/util/xs/n$p"/*_test.go; dirs="$dirs xs/n$p"; done
fi
if [ -d "$MC/go.etcd.io/gofail@v0.2.0/runtime" ]; then
  mkdir -p "$S/util/xs/gofailrt"; cp "$MC/go.etcd.io/gofail@v0.2.0/runtime"/*.go "$S/util/xs/gofailrt/"; rm -f "$S/util/xs/gofailrt"/*_test.go; dirs="$dirs xs/gofailrt"
fi
chmod -R u+w "$S/util/xs"
if [ -n "$dirs" ]; then
  (cd "$HERE/sim/rewrite" && go run main.go "$S/util" "$S/xs_scan2.go" $dirs >/dev/null) || rc=2
  (cd "$S/util" && go build -tags vsim_c19 ./xs/...) && echo "ok  	compile-only corpus:$dirs" || { echo "corpus: a corpus package does not build after the rewrite"; rc=2; }
fi
exit $rc
