#!/bin/bash
# seeded.sh [name-filter]: re-runs the quick check of the right property against every stored
# seeded change (scratch copies of /repo; /repo is never touched) and prints one line each.
# Exit 0 iff every change is detected (exit 1 from the check).
set -u
FILTER=${1:-}
HERE="$(cd "$(dirname "$0")/.." && pwd)"
export GOFLAGS=-mod=mod GOPROXY=off GOSUMDB=off GOTOOLCHAIN=local
W=$(mktemp -d -t vseeded-XXXXXX); trap 'rm -rf "$W"' EXIT
mkdir -p "$W/home"; cp "$HERE/known-findings.txt" "$W/home/" 2>/dev/null
bad=0
for d in "$HERE"/seeded/*/; do
  name=$(basename "$d")
  case "$name" in *"$FILTER"*) ;; *) continue;; esac
  [ -f "$d/meta.json" ] || continue
  id=$(jq -r .property "$d/meta.json")
  rm -rf "$W/repo"; mkdir -p "$W/repo"; rsync -a --exclude .git /repo/ "$W/repo/"
  (cd "$W/repo" && patch -p1 -s < "$d/patch.diff") || { echo "$name: patch does not apply"; bad=1; continue; }
  t0=$(date +%s.%N)
  out=$(VERIF_REPO="$W/repo" VERIF_OUT="$W/home" VERIF_SELFTEST_K=${SEEDED_K:-4} "$HERE/tools/check.sh" "$id" ${SEEDED_TIER:-quick} 2>&1); code=$?
  t1=$(date +%s.%N)
  inv=$(echo "$out" | grep -o 'invariant=[^ ]*' | sort | uniq -c | sort -rn | head -1 | awk '{print $2}')
  v=detected
  if [ $code -ne 1 ]; then
    if [ "$(jq -r '(.out_of_scope // .superseded // "") != ""' "$d/meta.json")" = true ]; then v="not-judged(exit=$code)"; elif [ "$(jq -r '.check.tier_needed // ""' "$d/meta.json")" = thorough ] && [ "${SEEDED_TIER:-quick}" = quick ]; then v="thorough-only(exit=$code)"; elif [ "$(jq -r '(.missed // "") != ""' "$d/meta.json")" = true ]; then v="known-miss(exit=$code)"; else v="MISSED(exit=$code)"; bad=1; fi
  fi
  printf "%-10s %-4s %-9s %-32s %5.1fs\n" "$name" "$id" "$v" "$inv" "$(echo "$t1 - $t0" | bc)"
done
exit $bad
