#!/bin/sh
# setup: verify toolchain, create output dirs. Every check builds from source itself.
set -e
cd "$(dirname "$0")/.."
export GOFLAGS=-mod=mod GOPROXY=off GOSUMDB=off GOTOOLCHAIN=local
go version >/dev/null
command -v rsync >/dev/null
mkdir -p evidence replays
echo "setup ok: $(go version)"
