#!/bin/bash
# determinism.sh <property> [processes=36] [runs=300]
# Large determinism self-test (development aid; the checks run a smaller one every time):
# the same run indices in many fresh processes at GOMAXPROCS 1, 4 and 16, all trace hashes
# must be identical. Exit 0 identical, 2 otherwise.
set -u
ID=${1:?property}; N=${2:-36}; R=${3:-300}
HERE="$(cd "$(dirname "$0")/.." && pwd)"
export GOFLAGS=-mod=mod GOPROXY=off GOSUMDB=off GOTOOLCHAIN=local VERIF_HOME="$HERE"
S=$(mktemp -d -t vsim-XXXXXX); trap 'rm -rf "$S"' EXIT
"$HERE/tools/mkscratch.sh" "$ID" "${VERIF_REPO:-/repo}" "$S" >/dev/null || exit 2
mkdir -p "$S/h"
for i in $(seq 1 $N); do
  case $((i % 3)) in 0) g=1;; 1) g=4;; 2) g=16;; esac
  # a quarter of the processes execute the runs in descending order, a quarter execute every
  # run twice (generated, then replayed from its own record): outcomes must not depend on
  # what the process ran before, nor on whether the tape is generated or fed back
  case $((i % 4)) in 1) o=rev;; 2) o=replay;; *) o=;; esac
  ( GOMAXPROCS=$g VERIF_HASH_ORDER=$o VERIF_SEED=${VERIF_SEED:-0} "$S/bin/verif" hashes "$ID" ${TIER:-quick} 0 $R > "$S/h/$i.txt" ) &
  if [ $((i % 12)) -eq 0 ]; then wait; fi
done
wait
ref=$(md5sum < "$S/h/1.txt")
bad=0
for i in $(seq 2 $N); do [ "$(md5sum < "$S/h/$i.txt")" = "$ref" ] || { bad=$((bad+1)); diff "$S/h/1.txt" "$S/h/$i.txt" | head -4; }; done
echo "determinism $ID: $N processes x $R runs (GOMAXPROCS 1/4/16), $bad differing, $(grep -c infra "$S/h/1.txt") infra lines, hash of hashes $ref"
[ $bad -eq 0 ] && ! grep -q infra "$S/h/1.txt" || exit 2
