// Command verif is the simulator binary built inside a scratch copy of the repository.
//
//	verif check  <prop> <tier>
//	verif worker <prop> <tier> <shard> <shards> <out>
//	verif replay <prop> <file>
//	verif hashes <prop> <tier> <from> <count>
package main

import (
	"fmt"
	"os"
	"strconv"

	"go.lstv.dev/util/internal/vsim/core"
)

func usage() {
	fmt.Fprintln(os.Stderr, "usage: verif check|worker|replay|hashes <prop> ...")
	os.Exit(2)
}

func main() {
	if len(os.Args) < 3 {
		usage()
	}
	p := lookup(os.Args[2])
	if p == nil {
		fmt.Fprintf(os.Stderr, "verif: property %s is not built into this binary\n", os.Args[2])
		os.Exit(2)
	}
	atoi := func(s string) int {
		v, err := strconv.Atoi(s)
		if err != nil {
			usage()
		}
		return v
	}
	switch os.Args[1] {
	case "check":
		if len(os.Args) != 4 {
			usage()
		}
		e, err := core.LoadEnv(os.Args[3])
		if err != nil {
			fmt.Fprintln(os.Stderr, err)
			os.Exit(2)
		}
		os.Exit(core.Check(p, e))
	case "worker":
		if len(os.Args) != 7 {
			usage()
		}
		e, err := core.LoadEnv(os.Args[3])
		if err != nil {
			fmt.Fprintln(os.Stderr, err)
			os.Exit(2)
		}
		os.Exit(core.Worker(p, e, atoi(os.Args[4]), atoi(os.Args[5]), os.Args[6]))
	case "replay":
		if len(os.Args) != 4 {
			usage()
		}
		e, err := core.LoadEnv("quick")
		if err != nil {
			fmt.Fprintln(os.Stderr, err)
			os.Exit(2)
		}
		os.Exit(core.Replay(p, e, os.Args[3]))
	case "trace":
		e, err := core.LoadEnv(os.Args[3])
		if err != nil {
			fmt.Fprintln(os.Stderr, err)
			os.Exit(2)
		}
		os.Exit(core.TraceRun(p, e, atoi(os.Args[4])))
	case "hashes":
		if len(os.Args) != 6 {
			usage()
		}
		e, err := core.LoadEnv(os.Args[3])
		if err != nil {
			fmt.Fprintln(os.Stderr, err)
			os.Exit(2)
		}
		os.Exit(core.Hashes(p, e, atoi(os.Args[4]), atoi(os.Args[5])))
	default:
		usage()
	}
}
