//go:build !vsim_c19

package main

import (
	"go.lstv.dev/util/internal/vsim/c17"
	"go.lstv.dev/util/internal/vsim/c20"
	"go.lstv.dev/util/internal/vsim/core"
)

func lookup(id string) core.Property {
	switch id {
	case "C17":
		return c17.Prop{}
	case "C20":
		return c20.Prop{}
	}
	return nil
}
