//go:build vsim_c19

package main

import (
	"go.lstv.dev/util/internal/vsim/c19"
	"go.lstv.dev/util/internal/vsim/core"
)

func lookup(id string) core.Property {
	if id == "C19" {
		return c19.Prop{}
	}
	return nil
}
