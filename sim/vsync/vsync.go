// Package vsync is the drop-in stand-in for package sync inside a simulated run. Blocking
// and wake-up order are decided by the seeded scheduler; every lock carries a vector clock
// (release -> acquire edges) for the happens-before check on simulated generators.
//
// Outside a run (package initialisation, draining after an aborted run) the primitives
// degrade to plain non-blocking bookkeeping.
package vsync

import (
	"fmt"

	"go.lstv.dev/util/internal/vsim/sched"
)

// Pool simulates sync.Pool deterministically: which pooled item a Get returns, and whether the
// pool "forgets" its items (the real one may drop them at any time), is the tape's choice.
// A Put synchronizes before the Get that returns the same item.
type Pool struct {
	New   func() interface{}
	st    objState
	items []poolItem
	plain []interface{}
}

type poolItem struct {
	v  interface{}
	vc []uint32
}

func (p *Pool) sync(s *sched.Sim) {
	if p.st.fresh(s) {
		p.items = nil
	}
}

// Get returns a pooled item or a new one.
func (p *Pool) Get() interface{} {
	s := sched.Cur
	if s == nil || s.Aborted() {
		if n := len(p.plain); n > 0 && s == nil {
			v := p.plain[n-1]
			p.plain = p.plain[:n-1]
			return v
		}
		if p.New != nil {
			return p.New()
		}
		return nil
	}
	p.sync(s)
	s.Yield(sched.KOther, p.st.id)
	if s.Aborted() {
		if p.New != nil {
			return p.New()
		}
		return nil
	}
	if n := len(p.items); n > 0 {
		if s.Tape.Bool(1, 4) {
			// legal behaviour of the real pool: items vanish (GC, per-P caches)
			s.Faults.Inc("pool_miss_injected")
		} else {
			i := s.Tape.Choose(n)
			it := p.items[i]
			p.items = append(p.items[:i], p.items[i+1:]...)
			sched.JoinVC(s.CurTask().VC, it.vc)
			return it.v
		}
	}
	if p.New != nil {
		return p.New()
	}
	return nil
}

// Put adds x to the pool.
func (p *Pool) Put(x interface{}) {
	s := sched.Cur
	if s == nil {
		p.plain = append(p.plain, x)
		return
	}
	if s.Aborted() {
		return
	}
	p.sync(s)
	me := s.CurTask()
	vc := append([]uint32(nil), me.VC...)
	me.VC[me.ID]++
	p.items = append(p.items, poolItem{x, vc})
	s.Yield(sched.KOther, p.st.id)
}

// Map simulates sync.Map with deterministic iteration order (insertion order). Every
// operation is atomic and, conservatively, synchronizes with every earlier operation on the
// same map (more happens-before edges than Go promises: never a false alarm).
type Map struct {
	st   objState
	keys []interface{}
	vals []interface{}
	vc   []uint32
}

func (m *Map) enter() *sched.Sim {
	s := sched.Cur
	if s == nil || s.Aborted() {
		return nil
	}
	if m.st.fresh(s) {
		m.keys, m.vals = nil, nil
		m.vc = make([]uint32, s.NumTasks())
	}
	s.Yield(sched.KOther, m.st.id)
	if s.Aborted() {
		return nil
	}
	me := s.CurTask()
	sched.JoinVC(me.VC, m.vc)
	sched.JoinVC(m.vc, me.VC)
	me.VC[me.ID]++
	return s
}

func (m *Map) find(k interface{}) int {
	for i := range m.keys {
		if m.keys[i] == k {
			return i
		}
	}
	return -1
}

// Load returns the value stored for key.
func (m *Map) Load(key interface{}) (interface{}, bool) {
	m.enter()
	if i := m.find(key); i >= 0 {
		return m.vals[i], true
	}
	return nil, false
}

// Store sets the value for key.
func (m *Map) Store(key, value interface{}) {
	m.enter()
	if i := m.find(key); i >= 0 {
		m.vals[i] = value
		return
	}
	m.keys = append(m.keys, key)
	m.vals = append(m.vals, value)
}

// LoadOrStore returns the existing value or stores the given one.
func (m *Map) LoadOrStore(key, value interface{}) (interface{}, bool) {
	m.enter()
	if i := m.find(key); i >= 0 {
		return m.vals[i], true
	}
	m.keys = append(m.keys, key)
	m.vals = append(m.vals, value)
	return value, false
}

// LoadAndDelete deletes the value for key, returning the previous value.
func (m *Map) LoadAndDelete(key interface{}) (interface{}, bool) {
	m.enter()
	if i := m.find(key); i >= 0 {
		v := m.vals[i]
		m.keys = append(m.keys[:i], m.keys[i+1:]...)
		m.vals = append(m.vals[:i], m.vals[i+1:]...)
		return v, true
	}
	return nil, false
}

// Delete deletes the value for key.
func (m *Map) Delete(key interface{}) { m.LoadAndDelete(key) }

// Swap stores value and returns the previous one.
func (m *Map) Swap(key, value interface{}) (interface{}, bool) {
	m.enter()
	if i := m.find(key); i >= 0 {
		old := m.vals[i]
		m.vals[i] = value
		return old, true
	}
	m.keys = append(m.keys, key)
	m.vals = append(m.vals, value)
	return nil, false
}

// CompareAndSwap swaps old for new if the stored value equals old.
func (m *Map) CompareAndSwap(key, old, new interface{}) bool {
	m.enter()
	if i := m.find(key); i >= 0 && m.vals[i] == old {
		m.vals[i] = new
		return true
	}
	return false
}

// CompareAndDelete deletes the entry if its value equals old.
func (m *Map) CompareAndDelete(key, old interface{}) bool {
	m.enter()
	if i := m.find(key); i >= 0 && m.vals[i] == old {
		m.keys = append(m.keys[:i], m.keys[i+1:]...)
		m.vals = append(m.vals[:i], m.vals[i+1:]...)
		return true
	}
	return false
}

// Clear is sync.Map.Clear (Go 1.23).
func (m *Map) Clear() {
	m.enter()
	m.keys, m.vals = nil, nil
}

// Range calls f for each entry in insertion order.
func (m *Map) Range(f func(key, value interface{}) bool) {
	m.enter()
	ks := append([]interface{}(nil), m.keys...)
	vs := append([]interface{}(nil), m.vals...)
	for i := range ks {
		if !f(ks[i], vs[i]) {
			return
		}
	}
}

// Locker is sync.Locker.
type Locker interface {
	Lock()
	Unlock()
}

type objState struct {
	gen uint64
	id  int
}

// fresh reports whether the object was first touched in this run and assigns its id.
func (o *objState) fresh(s *sched.Sim) bool {
	if o.gen == s.Gen {
		return false
	}
	o.gen = s.Gen
	o.id = s.NewObjID()
	return true
}

// Mutex simulates sync.Mutex.
type Mutex struct {
	st     objState
	holder *sched.Task
	held   bool // plain mode
	vc     []uint32
}

func (m *Mutex) sync(s *sched.Sim) {
	if m.st.fresh(s) {
		m.holder = nil
		m.held = false
		m.vc = make([]uint32, s.NumTasks())
	}
}

// Free implements sched.Waitable.
func (m *Mutex) Free(t *sched.Task) bool { return m.holder == nil }

// Name implements sched.Waitable.
func (m *Mutex) Name() string {
	if m.holder != nil {
		return fmt.Sprintf("mutex#%d held by t%d", m.st.id, m.holder.ID)
	}
	return fmt.Sprintf("mutex#%d", m.st.id)
}

// Lock acquires the mutex; which contender wins after an Unlock is the scheduler's choice
// (barging and hand-off are both legal in Go, both are explored).
func (m *Mutex) Lock() {
	s := sched.Cur
	if s == nil || s.Aborted() {
		m.held = true
		return
	}
	m.sync(s)
	s.Yield(sched.KLock, m.st.id)
	if s.Aborted() {
		return
	}
	s.BlockOn(m, m.st.id)
	if s.Aborted() {
		return
	}
	me := s.CurTask()
	m.holder = me
	s.Holding(1)
	sched.JoinVC(me.VC, m.vc)
}

// TryLock tries to acquire without blocking.
func (m *Mutex) TryLock() bool {
	s := sched.Cur
	if s == nil || s.Aborted() {
		if m.held {
			return false
		}
		m.held = true
		return true
	}
	m.sync(s)
	s.Yield(sched.KLock, m.st.id)
	if s.Aborted() {
		return true
	}
	if m.holder != nil {
		s.YieldHint()
		s.Probes.Inc("lock_contended") // a failed TryLock is contention too (designs that never block)
		return false
	}
	me := s.CurTask()
	m.holder = me
	s.Holding(1)
	sched.JoinVC(me.VC, m.vc)
	return true
}

// Unlock releases the mutex.
func (m *Mutex) Unlock() {
	s := sched.Cur
	if s == nil || s.Aborted() {
		m.held = false
		m.holder = nil
		return
	}
	m.sync(s)
	me := s.CurTask()
	if m.holder == nil {
		s.Fail("E3-panic", "unlock-of-unlocked", fmt.Sprintf("t%d: sync: unlock of unlocked mutex#%d (fatal error in the real runtime)", me.ID, m.st.id))
		return
	}
	// release: publish the holder's clock (Go allows unlocking from another goroutine)
	sched.JoinVC(m.vc, me.VC)
	me.VC[me.ID]++
	if m.holder == me {
		s.Holding(-1)
	}
	m.holder = nil
	s.Yield(sched.KUnlock, m.st.id)
}

// RWMutex simulates sync.RWMutex. Readers acquire only what writers released, so two
// read-lock holders are correctly unordered with respect to each other.
type RWMutex struct {
	st      objState
	writer  *sched.Task
	readers int
	wvc     []uint32 // released by writers
	rvc     []uint32 // released by readers
	plainW  bool
	plainR  int
}

func (m *RWMutex) sync(s *sched.Sim) {
	if m.st.fresh(s) {
		m.writer = nil
		m.readers = 0
		m.wvc = make([]uint32, s.NumTasks())
		m.rvc = make([]uint32, s.NumTasks())
	}
}

type rwWrite struct{ m *RWMutex }
type rwRead struct{ m *RWMutex }

func (w rwWrite) Free(t *sched.Task) bool { return w.m.writer == nil && w.m.readers == 0 }
func (w rwWrite) Name() string            { return fmt.Sprintf("rwmutex#%d (write)", w.m.st.id) }
func (r rwRead) Free(t *sched.Task) bool  { return r.m.writer == nil }
func (r rwRead) Name() string             { return fmt.Sprintf("rwmutex#%d (read)", r.m.st.id) }

// Lock takes the write lock.
func (m *RWMutex) Lock() {
	s := sched.Cur
	if s == nil || s.Aborted() {
		m.plainW = true
		return
	}
	m.sync(s)
	s.Yield(sched.KLock, m.st.id)
	s.BlockOn(rwWrite{m}, m.st.id)
	if s.Aborted() {
		return
	}
	me := s.CurTask()
	m.writer = me
	s.Holding(1)
	sched.JoinVC(me.VC, m.wvc)
	sched.JoinVC(me.VC, m.rvc)
}

// Unlock releases the write lock.
func (m *RWMutex) Unlock() {
	s := sched.Cur
	if s == nil || s.Aborted() {
		m.plainW = false
		m.writer = nil
		return
	}
	m.sync(s)
	me := s.CurTask()
	if m.writer == nil {
		s.Fail("E3-panic", "unlock-of-unlocked", fmt.Sprintf("t%d: sync: Unlock of unlocked RWMutex#%d", me.ID, m.st.id))
		return
	}
	sched.JoinVC(m.wvc, me.VC)
	me.VC[me.ID]++
	if m.writer == me {
		s.Holding(-1)
	}
	m.writer = nil
	s.Yield(sched.KUnlock, m.st.id)
}

// RLock takes a read lock.
func (m *RWMutex) RLock() {
	s := sched.Cur
	if s == nil || s.Aborted() {
		m.plainR++
		return
	}
	m.sync(s)
	s.Yield(sched.KRLock, m.st.id)
	s.BlockOn(rwRead{m}, m.st.id)
	if s.Aborted() {
		return
	}
	me := s.CurTask()
	m.readers++
	s.Holding(1)
	sched.JoinVC(me.VC, m.wvc)
}

// RUnlock releases a read lock.
func (m *RWMutex) RUnlock() {
	s := sched.Cur
	if s == nil || s.Aborted() {
		if m.plainR > 0 {
			m.plainR--
		}
		if m.readers > 0 {
			m.readers--
		}
		return
	}
	m.sync(s)
	me := s.CurTask()
	if m.readers == 0 {
		s.Fail("E3-panic", "unlock-of-unlocked", fmt.Sprintf("t%d: sync: RUnlock of unlocked RWMutex#%d", me.ID, m.st.id))
		return
	}
	sched.JoinVC(m.rvc, me.VC)
	me.VC[me.ID]++
	m.readers--
	s.Holding(-1)
	s.Yield(sched.KRUnlock, m.st.id)
}

// TryLock tries to take the write lock.
func (m *RWMutex) TryLock() bool {
	s := sched.Cur
	if s == nil || s.Aborted() {
		if m.plainW || m.plainR > 0 {
			return false
		}
		m.plainW = true
		return true
	}
	m.sync(s)
	s.Yield(sched.KLock, m.st.id)
	if s.Aborted() {
		return true
	}
	if m.writer != nil || m.readers > 0 {
		s.YieldHint()
		return false
	}
	me := s.CurTask()
	m.writer = me
	s.Holding(1)
	sched.JoinVC(me.VC, m.wvc)
	sched.JoinVC(me.VC, m.rvc)
	return true
}

// TryRLock tries to take a read lock.
func (m *RWMutex) TryRLock() bool {
	s := sched.Cur
	if s == nil || s.Aborted() {
		if m.plainW {
			return false
		}
		m.plainR++
		return true
	}
	m.sync(s)
	s.Yield(sched.KRLock, m.st.id)
	if s.Aborted() {
		return true
	}
	if m.writer != nil {
		return false
	}
	me := s.CurTask()
	m.readers++
	s.Holding(1)
	sched.JoinVC(me.VC, m.wvc)
	return true
}

type rlocker RWMutex

func (r *rlocker) Lock()   { (*RWMutex)(r).RLock() }
func (r *rlocker) Unlock() { (*RWMutex)(r).RUnlock() }

// RLocker returns a Locker for the read side.
func (m *RWMutex) RLocker() Locker { return (*rlocker)(m) }

// Once simulates sync.Once: the first caller runs f; others block until it has finished.
type Once struct {
	st      objState
	done    bool
	running *sched.Task
	vc      []uint32
	plain   bool
}

func (o *Once) sync(s *sched.Sim) {
	if o.st.fresh(s) {
		// a Once that completed outside any run (package init) stays done
		o.done = o.plain
		o.running = nil
		o.vc = make([]uint32, s.NumTasks())
	}
}

type onceWait struct{ o *Once }

func (w onceWait) Free(t *sched.Task) bool { return w.o.running == nil }
func (w onceWait) Name() string            { return fmt.Sprintf("once#%d", w.o.st.id) }

// Do runs f exactly once.
func (o *Once) Do(f func()) {
	s := sched.Cur
	if s == nil || s.Aborted() {
		if !o.plain && !o.done {
			o.plain = true
			o.done = true
			f()
		}
		return
	}
	o.sync(s)
	s.Yield(sched.KOnce, o.st.id)
	if s.Aborted() {
		return
	}
	me := s.CurTask()
	if o.done {
		sched.JoinVC(me.VC, o.vc)
		return
	}
	if o.running != nil {
		s.BlockOn(onceWait{o}, o.st.id)
		if s.Aborted() {
			return
		}
		sched.JoinVC(me.VC, o.vc)
		return
	}
	o.running = me
	defer func() {
		o.done = true
		o.running = nil
		sched.JoinVC(o.vc, me.VC)
		me.VC[me.ID]++
	}()
	f()
}

// WaitGroup simulates sync.WaitGroup.
type WaitGroup struct {
	st objState
	n  int
	vc []uint32
}

func (w *WaitGroup) sync(s *sched.Sim) {
	if w.st.fresh(s) {
		w.n = 0
		w.vc = make([]uint32, s.NumTasks())
	}
}

// Free implements sched.Waitable.
func (w *WaitGroup) Free(t *sched.Task) bool { return w.n <= 0 }

// Name implements sched.Waitable.
func (w *WaitGroup) Name() string { return fmt.Sprintf("waitgroup#%d (count %d)", w.st.id, w.n) }

// Add adjusts the counter.
func (w *WaitGroup) Add(d int) {
	s := sched.Cur
	if s == nil || s.Aborted() {
		w.n += d
		return
	}
	w.sync(s)
	me := s.CurTask()
	if d < 0 {
		sched.JoinVC(w.vc, me.VC)
		me.VC[me.ID]++
	}
	w.n += d
	s.Yield(sched.KWgAdd, w.st.id)
}

// Done decrements the counter.
func (w *WaitGroup) Done() { w.Add(-1) }

// Wait blocks until the counter is zero.
func (w *WaitGroup) Wait() {
	s := sched.Cur
	if s == nil || s.Aborted() {
		return
	}
	w.sync(s)
	s.Yield(sched.KWgWait, w.st.id)
	s.BlockOn(w, w.st.id)
	if s.Aborted() {
		return
	}
	sched.JoinVC(s.CurTask().VC, w.vc)
}

// Cond simulates sync.Cond.
type Cond struct {
	L       Locker
	st      objState
	waiters []*sched.Task
	woken   map[*sched.Task]bool
	vc      []uint32
}

// NewCond returns a condition variable on l.
func NewCond(l Locker) *Cond { return &Cond{L: l} }

func (c *Cond) sync(s *sched.Sim) {
	if c.st.fresh(s) {
		c.waiters = nil
		c.woken = map[*sched.Task]bool{}
		c.vc = make([]uint32, s.NumTasks())
	}
}

type condWait struct {
	c *Cond
}

func (w condWait) Free(t *sched.Task) bool { return w.c.woken[t] }
func (w condWait) Name() string            { return fmt.Sprintf("cond#%d", w.c.st.id) }

// Wait releases L, waits for a signal, re-acquires L.
func (c *Cond) Wait() {
	s := sched.Cur
	if s == nil || s.Aborted() {
		return
	}
	c.sync(s)
	me := s.CurTask()
	c.waiters = append(c.waiters, me)
	c.woken[me] = false
	c.L.Unlock()
	if s.Aborted() {
		return
	}
	s.Yield(sched.KCondWait, c.st.id)
	s.BlockOn(condWait{c}, c.st.id)
	delete(c.woken, me)
	if s.Aborted() {
		return
	}
	sched.JoinVC(me.VC, c.vc)
	c.L.Lock()
}

// Signal wakes one waiter (the scheduler's tape decides which).
func (c *Cond) Signal() {
	s := sched.Cur
	if s == nil || s.Aborted() {
		return
	}
	c.sync(s)
	me := s.CurTask()
	sched.JoinVC(c.vc, me.VC)
	me.VC[me.ID]++
	if len(c.waiters) > 0 {
		i := s.Tape.Choose(len(c.waiters))
		t := c.waiters[i]
		c.waiters = append(c.waiters[:i], c.waiters[i+1:]...)
		c.woken[t] = true
	}
	s.Yield(sched.KCondSignal, c.st.id)
}

// Broadcast wakes all waiters.
func (c *Cond) Broadcast() {
	s := sched.Cur
	if s == nil || s.Aborted() {
		return
	}
	c.sync(s)
	me := s.CurTask()
	sched.JoinVC(c.vc, me.VC)
	me.VC[me.ID]++
	for _, t := range c.waiters {
		c.woken[t] = true
	}
	c.waiters = nil
	s.Yield(sched.KCondSignal, c.st.id)
}

// OnceValue mirrors sync.OnceValue.
func OnceValue[T any](f func() T) func() T {
	var o Once
	var v T
	return func() T {
		o.Do(func() { v = f() })
		return v
	}
}

// OnceValues mirrors sync.OnceValues.
func OnceValues[T1, T2 any](f func() (T1, T2)) func() (T1, T2) {
	var o Once
	var v1 T1
	var v2 T2
	return func() (T1, T2) {
		o.Do(func() { v1, v2 = f() })
		return v1, v2
	}
}

// OnceFunc mirrors sync.OnceFunc.
func OnceFunc(f func()) func() {
	var o Once
	return func() { o.Do(f) }
}
