// Package vchan simulates Go channels on the seeded scheduler. The rewrite step turns
// `chan T` into *vchan.Chan[T], make(chan T, n) into vchan.Make[T](n), sends, receives,
// close and select into method calls. Which blocked task proceeds is the tape's choice.
//
// Happens-before: a send is synchronized before the receive that takes its value (exact,
// per item); a receive is synchronized before every later send on the same channel
// (conservative superset of Go's "k-th receive before the (k+C)-th send completes", which is
// what makes a buffered channel usable as a semaphore); close before a receive that observes it.
package vchan

import (
	"fmt"

	"go.lstv.dev/util/internal/vsim/sched"
)

type item[T any] struct {
	v  T
	vc []uint32
}

// Chan is a simulated channel.
type Chan[T any] struct {
	gen     uint64
	id      int
	capa    int
	buf     []item[T]
	hand    *item[T] // unbuffered: value offered by a blocked sender
	taken   bool
	takenVC []uint32
	closed  bool
	closeVC []uint32
	recvVC  []uint32
	recvW   int // tasks blocked receiving (for select send-readiness on unbuffered channels)
	selV    T
	selOK   bool
	plain   []T
}

// Make creates a channel with the given capacity (default 0).
func Make[T any](n ...int) *Chan[T] {
	c := &Chan[T]{}
	if len(n) > 0 {
		c.capa = n[0]
	}
	return c
}

func (c *Chan[T]) sync(s *sched.Sim) {
	if c.gen != s.Gen {
		c.gen = s.Gen
		c.id = s.NewObjID()
		c.buf = nil
		c.hand = nil
		c.taken = false
		c.takenVC = nil
		c.closed = false
		c.recvW = 0
		c.closeVC = nil
		c.recvVC = make([]uint32, s.NumTasks())
	}
}

type sendWait[T any] struct{ c *Chan[T] }
type handWait[T any] struct{ c *Chan[T] }
type recvWait[T any] struct{ c *Chan[T] }
type forever struct{}

func (w sendWait[T]) Free(t *sched.Task) bool {
	if w.c.closed {
		return true
	}
	if w.c.capa > 0 {
		return len(w.c.buf) < w.c.capa
	}
	return w.c.hand == nil
}
func (w sendWait[T]) Name() string            { return fmt.Sprintf("chan#%d (send)", w.c.id) }
func (w handWait[T]) Free(t *sched.Task) bool { return w.c.taken || w.c.closed }
func (w handWait[T]) Name() string {
	return fmt.Sprintf("chan#%d (send, waiting for a receiver)", w.c.id)
}
func (w recvWait[T]) Free(t *sched.Task) bool { return w.c.recvReady() }
func (w recvWait[T]) Name() string            { return fmt.Sprintf("chan#%d (receive)", w.c.id) }
func (forever) Free(t *sched.Task) bool       { return false }
func (forever) Name() string                  { return "nil channel / empty select (blocks forever)" }

func (c *Chan[T]) recvReady() bool { return len(c.buf) > 0 || (c.hand != nil && !c.taken) || c.closed }

func (c *Chan[T]) sendReady() bool {
	if c.closed {
		return true // will panic, as in Go
	}
	if c.capa > 0 {
		return len(c.buf) < c.capa
	}
	return c.hand == nil && c.recvW > 0
}

// Send is `c <- v`.
func (c *Chan[T]) Send(v T) {
	s := sched.Cur
	if c == nil {
		if s != nil && !s.Aborted() {
			s.BlockOn(forever{}, 0)
		}
		return
	}
	if s == nil {
		c.plain = append(c.plain, v)
		return
	}
	if s.Aborted() {
		return
	}
	c.sync(s)
	s.Yield(sched.KSend, c.id)
	if s.Aborted() {
		return
	}
	s.BlockOn(sendWait[T]{c}, c.id)
	if s.Aborted() {
		return
	}
	c.doSend(s, v)
}

func (c *Chan[T]) doSend(s *sched.Sim, v T) {
	if c.closed {
		panic("send on closed channel")
	}
	me := s.CurTask()
	sched.JoinVC(me.VC, c.recvVC)
	it := item[T]{v: v, vc: append([]uint32(nil), me.VC...)}
	me.VC[me.ID]++
	if c.capa > 0 {
		c.buf = append(c.buf, it)
		return
	}
	c.hand = &it
	c.taken = false
	s.BlockOn(handWait[T]{c}, c.id)
	if s.Aborted() {
		return
	}
	if c.taken {
		// unbuffered: the receive is synchronized before the completion of the send
		sched.JoinVC(me.VC, c.takenVC)
		c.hand = nil
		c.taken = false
		return
	}
	// closed while offering
	c.hand = nil
	panic("send on closed channel")
}

// TrySendFromTimer delivers a timer tick without blocking and without a sending task.
func (c *Chan[T]) TrySendFromTimer(v T) {
	s := sched.Cur
	if s == nil || c == nil {
		return
	}
	c.sync(s)
	if len(c.buf) < c.capa {
		c.buf = append(c.buf, item[T]{v: v})
	}
}

// Recv is `<-c`.
func (c *Chan[T]) Recv() T {
	v, _ := c.Recv2()
	return v
}

// Recv2 is `v, ok := <-c`.
func (c *Chan[T]) Recv2() (v T, ok bool) {
	s := sched.Cur
	if c == nil {
		if s != nil && !s.Aborted() {
			s.BlockOn(forever{}, 0)
		}
		return v, false
	}
	if s == nil {
		if len(c.plain) > 0 {
			v = c.plain[0]
			c.plain = c.plain[1:]
			return v, true
		}
		return v, false
	}
	if s.Aborted() {
		return v, false
	}
	c.sync(s)
	s.Yield(sched.KRecv, c.id)
	if s.Aborted() {
		return v, false
	}
	c.recvW++
	s.BlockOn(recvWait[T]{c}, c.id)
	c.recvW--
	if s.Aborted() {
		return v, false
	}
	return c.doRecv(s)
}

func (c *Chan[T]) doRecv(s *sched.Sim) (v T, ok bool) {
	me := s.CurTask()
	switch {
	case len(c.buf) > 0:
		it := c.buf[0]
		c.buf = c.buf[1:]
		if it.vc != nil {
			sched.JoinVC(me.VC, it.vc)
		}
		v, ok = it.v, true
	case c.hand != nil && !c.taken:
		sched.JoinVC(me.VC, c.hand.vc)
		v, ok = c.hand.v, true
		c.taken = true
		c.takenVC = append(c.takenVC[:0], me.VC...)
	case c.closed:
		if c.closeVC != nil {
			sched.JoinVC(me.VC, c.closeVC)
		}
		return v, false
	}
	sched.JoinVC(c.recvVC, me.VC)
	me.VC[me.ID]++
	return v, ok
}

// Close is close(c).
func (c *Chan[T]) Close() {
	s := sched.Cur
	if c == nil {
		panic("close of nil channel")
	}
	if s == nil || s.Aborted() {
		c.closed = true
		return
	}
	c.sync(s)
	s.Yield(sched.KClose, c.id)
	if s.Aborted() {
		return
	}
	if c.closed {
		panic("close of closed channel")
	}
	me := s.CurTask()
	c.closed = true
	c.closeVC = append([]uint32(nil), me.VC...)
	me.VC[me.ID]++
}

// CloseFromTimer closes the channel from a timer callback (no closing task, no yield).
func (c *Chan[T]) CloseFromTimer() {
	if c == nil {
		return
	}
	if s := sched.Cur; s != nil {
		c.sync(s)
	}
	c.closed = true
}

// Len is len(c); Cap is cap(c).
func (c *Chan[T]) Len() int {
	if c == nil {
		return 0 // len of a nil channel
	}
	return len(c.buf)
}

// Cap is cap(c).
func (c *Chan[T]) Cap() int {
	if c == nil {
		return 0
	}
	return c.capa
}

// Selected returns what the select statement received from c.
func (c *Chan[T]) Selected() (T, bool) { return c.selV, c.selOK }

// Selected1 returns the value the select statement received from c.
func (c *Chan[T]) Selected1() T { return c.selV }

// Case is one communication clause of a select statement.
type Case struct {
	ready     func() bool
	do        func(s *sched.Sim)
	id        int
	nilCh     bool
	unbufSend bool
	prep      func(s *sched.Sim)
	wait      func(d int)
}

// RecvCase is `case ... <-c`.
func RecvCase[T any](c *Chan[T]) Case {
	if c == nil {
		return Case{nilCh: true}
	}
	return Case{
		prep:  func(s *sched.Sim) { c.sync(s) },
		ready: c.recvReady,
		do:    func(s *sched.Sim) { c.selV, c.selOK = c.doRecv(s) },
		wait:  func(d int) { c.recvW += d },
	}
}

// SendCase is `case c <- v`.
func SendCase[T any](c *Chan[T], v T) Case {
	if c == nil {
		return Case{nilCh: true}
	}
	return Case{
		prep:      func(s *sched.Sim) { c.sync(s) },
		ready:     c.sendReady,
		do:        func(s *sched.Sim) { c.doSend(s, v) },
		unbufSend: c.capa == 0,
	}
}

type selWait struct{ cases []Case }

func (w selWait) Free(t *sched.Task) bool {
	for _, c := range w.cases {
		if !c.nilCh && c.ready() {
			return true
		}
	}
	return false
}
func (w selWait) Name() string { return "select" }

// Select is the select statement: it returns the index of the clause that ran, -1 for
// default. Among several ready clauses the tape chooses (Go chooses pseudo-randomly).
func Select(hasDefault bool, cases ...Case) int {
	s := sched.Cur
	if s == nil || s.Aborted() {
		return -1
	}
	for _, c := range cases {
		if !c.nilCh {
			c.prep(s)
		}
	}
	s.Yield(sched.KSelect, len(cases))
	if s.Aborted() {
		return -1
	}
	for {
		var ready []int
		for i, c := range cases {
			if !c.nilCh && c.ready() {
				ready = append(ready, i)
			}
		}
		if len(ready) > 0 {
			i := ready[s.Tape.Choose(len(ready))]
			cases[i].do(s)
			return i
		}
		if hasDefault {
			return -1
		}
		live := false
		for _, c := range cases {
			if !c.nilCh {
				live = true
				if c.wait != nil {
					c.wait(1)
				}
			}
		}
		if !live {
			s.BlockOn(forever{}, 0)
			return -1
		}
		s.BlockOn(selWait{cases}, 0)
		for _, c := range cases {
			if !c.nilCh && c.wait != nil {
				c.wait(-1)
			}
		}
		if s.Aborted() {
			return -1
		}
	}
}
