// Package vchan simulates Go channels on the seeded scheduler. The rewrite step turns
// `chan T` into *vchan.Chan[T], make(chan T, n) into vchan.Make[T](n), sends, receives,
// close and select into method calls. Which blocked task proceeds is the tape's choice.
//
// Happens-before: a send is synchronized before the receive that takes its value (exact,
// per item); a receive is synchronized before every later send on the same channel
// (conservative superset of Go's "k-th receive before the (k+C)-th send completes", which is
// what makes a buffered channel usable as a semaphore); close before a receive that observes it.
package vchan

import (
	"fmt"

	"go.lstv.dev/util/internal/vsim/sched"
)

type item[T any] struct {
	v  T
	vc []uint32
}

// rslot is a receiver that is blocked on a channel: a sender that finds one hands its value
// over directly and completes (the rendezvous of an unbuffered channel is atomic: a send clause
// of a select commits only together with a receiver that can no longer go elsewhere).
type rslot[T any] struct {
	grp *group // the select statement (or plain receive) the slot belongs to
	vc  []uint32
	got bool
	it  item[T]
}

// group ties the receive clauses of one blocked select together: only one of them may be served.
type group struct{ done bool }

// Chan is a simulated channel.
type Chan[T any] struct {
	gen     uint64
	id      int
	capa    int
	buf     []item[T]
	hand    *item[T] // unbuffered: value offered by a blocked sender
	taken   bool
	takenVC []uint32
	closed  bool
	closeVC []uint32
	recvVC  []uint32
	rq      []*rslot[T] // blocked receivers (plain receives and receive clauses of blocked selects), oldest first
	selV    T
	selOK   bool
	plain   []T
}

// Make creates a channel with the given capacity (default 0).
func Make[T any](n ...int) *Chan[T] {
	c := &Chan[T]{}
	if len(n) > 0 {
		c.capa = n[0]
	}
	return c
}

// MakeLike creates a channel of the element type of its first argument (make(X, n) for a named
// channel type X: the rewrite step does not know X's element type, the compiler does).
func MakeLike[T any](_ *Chan[T], n ...int) *Chan[T] { return Make[T](n...) }

func (c *Chan[T]) sync(s *sched.Sim) {
	if c.gen != s.Gen {
		c.gen = s.Gen
		c.id = s.NewObjID()
		c.buf = nil
		// what was sent outside any run (a token put into a buffered channel by a package
		// initialiser) is in the channel when the run starts
		for _, v := range c.plain {
			if len(c.buf) < c.capa {
				c.buf = append(c.buf, item[T]{v: v})
			}
		}
		c.plain = nil
		c.hand = nil
		c.taken = false
		c.takenVC = nil
		c.closed = false
		c.rq = nil
		c.closeVC = nil
		c.recvVC = make([]uint32, s.NumTasks())
	}
}

type sendWait[T any] struct{ c *Chan[T] }
type handWait[T any] struct{ c *Chan[T] }
type recvWait[T any] struct {
	c    *Chan[T]
	slot *rslot[T]
}
type forever struct{}

func (w sendWait[T]) Free(t *sched.Task) bool {
	if w.c.closed {
		return true
	}
	if w.c.capa > 0 {
		return len(w.c.buf) < w.c.capa
	}
	return w.c.hand == nil
}
func (w sendWait[T]) Name() string            { return fmt.Sprintf("chan#%d (send)", w.c.id) }
func (w handWait[T]) Free(t *sched.Task) bool { return w.c.taken || w.c.closed }
func (w handWait[T]) Name() string {
	return fmt.Sprintf("chan#%d (send, waiting for a receiver)", w.c.id)
}
func (w recvWait[T]) Free(t *sched.Task) bool { return w.slot.got || w.c.recvReady() }
func (w recvWait[T]) Name() string            { return fmt.Sprintf("chan#%d (receive)", w.c.id) }
func (forever) Free(t *sched.Task) bool       { return false }
func (forever) Name() string                  { return "nil channel / empty select (blocks forever)" }

func (c *Chan[T]) recvReady() bool { return len(c.buf) > 0 || (c.hand != nil && !c.taken) || c.closed }

func (c *Chan[T]) sendReady() bool {
	if c.closed {
		return true // will panic, as in Go
	}
	if c.capa > 0 {
		return len(c.buf) < c.capa
	}
	return c.hand == nil && c.waiting() != nil
}

// waiting returns the oldest blocked receiver that can still be served, dropping stale entries.
func (c *Chan[T]) waiting() *rslot[T] {
	for len(c.rq) > 0 {
		if sl := c.rq[0]; !sl.got && !sl.grp.done {
			return sl
		}
		c.rq = c.rq[1:]
	}
	return nil
}

func (c *Chan[T]) enqueue(s *sched.Sim, g *group) *rslot[T] {
	sl := &rslot[T]{grp: g, vc: append([]uint32(nil), s.CurTask().VC...)}
	c.rq = append(c.rq, sl)
	return sl
}

func (c *Chan[T]) dequeue(sl *rslot[T]) {
	for i, x := range c.rq {
		if x == sl {
			c.rq = append(c.rq[:i], c.rq[i+1:]...)
			return
		}
	}
}

// accept completes a receive whose value was handed over by a sender while the receiver was blocked.
func (c *Chan[T]) accept(s *sched.Sim, sl *rslot[T]) (T, bool) {
	me := s.CurTask()
	if sl.it.vc != nil {
		sched.JoinVC(me.VC, sl.it.vc)
	}
	sched.JoinVC(c.recvVC, me.VC)
	me.VC[me.ID]++
	return sl.it.v, true
}

// Send is `c <- v`.
func (c *Chan[T]) Send(v T) {
	s := sched.Cur
	if c == nil {
		if s != nil && !s.Aborted() {
			s.BlockOn(forever{}, 0)
		}
		return
	}
	if s == nil {
		c.plain = append(c.plain, v)
		return
	}
	if s.Aborted() {
		return
	}
	c.sync(s)
	s.Yield(sched.KSend, c.id)
	if s.Aborted() {
		return
	}
	s.BlockOn(sendWait[T]{c}, c.id)
	if s.Aborted() {
		return
	}
	c.doSend(s, v)
	// the value is out: others may act on it before the sender's next statement runs (a
	// preemption point after the effect, not only before it)
	if !s.Aborted() {
		s.Yield(sched.KSend, c.id)
	}
}

func (c *Chan[T]) doSend(s *sched.Sim, v T) {
	if c.closed {
		panic("send on closed channel")
	}
	me := s.CurTask()
	sched.JoinVC(me.VC, c.recvVC)
	it := item[T]{v: v, vc: append([]uint32(nil), me.VC...)}
	me.VC[me.ID]++
	if c.capa > 0 {
		c.buf = append(c.buf, it)
		return
	}
	if sl := c.waiting(); sl != nil && c.hand == nil {
		// a receiver is blocked on this channel: hand the value over and complete. The receive is
		// synchronized before the completion of the send: join what the receiver knew when it blocked
		sl.it, sl.got, sl.grp.done = it, true, true
		c.rq = c.rq[1:]
		sched.JoinVC(me.VC, sl.vc)
		return
	}
	c.hand = &it
	c.taken = false
	s.BlockOn(handWait[T]{c}, c.id)
	if s.Aborted() {
		return
	}
	if c.taken {
		// unbuffered: the receive is synchronized before the completion of the send
		sched.JoinVC(me.VC, c.takenVC)
		c.hand = nil
		c.taken = false
		return
	}
	// closed while offering
	c.hand = nil
	panic("send on closed channel")
}

// TrySendFromTimer delivers a timer tick without blocking and without a sending task.
func (c *Chan[T]) TrySendFromTimer(v T) {
	s := sched.Cur
	if s == nil || c == nil {
		return
	}
	c.sync(s)
	if len(c.buf) < c.capa {
		c.buf = append(c.buf, item[T]{v: v, vc: s.FiringVC()}) // arming the timer happens before the receive of its tick
	}
}

// Recv is `<-c`.
func (c *Chan[T]) Recv() T {
	v, _ := c.Recv2()
	return v
}

// Recv2 is `v, ok := <-c`.
func (c *Chan[T]) Recv2() (v T, ok bool) {
	s := sched.Cur
	if c == nil {
		if s != nil && !s.Aborted() {
			s.BlockOn(forever{}, 0)
		}
		return v, false
	}
	if s == nil {
		if len(c.plain) > 0 {
			v = c.plain[0]
			c.plain = c.plain[1:]
			return v, true
		}
		return v, false
	}
	if s.Aborted() {
		return v, false
	}
	c.sync(s)
	s.Yield(sched.KRecv, c.id)
	if s.Aborted() {
		return v, false
	}
	// whatever the receive sets free (a buffer slot, a blocked sender) may act before the
	// receiver's next statement runs: a preemption point after the effect as well
	defer func() {
		if !s.Aborted() {
			s.Yield(sched.KRecv, c.id)
		}
	}()
	if c.recvReady() {
		return c.doRecv(s)
	}
	sl := c.enqueue(s, &group{})
	s.BlockOn(recvWait[T]{c, sl}, c.id)
	c.dequeue(sl)
	if s.Aborted() {
		return v, false
	}
	if sl.got {
		return c.accept(s, sl)
	}
	return c.doRecv(s)
}

func (c *Chan[T]) doRecv(s *sched.Sim) (v T, ok bool) {
	me := s.CurTask()
	switch {
	case len(c.buf) > 0:
		it := c.buf[0]
		c.buf = c.buf[1:]
		if it.vc != nil {
			sched.JoinVC(me.VC, it.vc)
		}
		v, ok = it.v, true
	case c.hand != nil && !c.taken:
		sched.JoinVC(me.VC, c.hand.vc)
		v, ok = c.hand.v, true
		c.taken = true
		c.takenVC = append(c.takenVC[:0], me.VC...)
	case c.closed:
		if c.closeVC != nil {
			sched.JoinVC(me.VC, c.closeVC)
		}
		return v, false
	}
	sched.JoinVC(c.recvVC, me.VC)
	me.VC[me.ID]++
	return v, ok
}

// Close is close(c).
func (c *Chan[T]) Close() {
	s := sched.Cur
	if c == nil {
		panic("close of nil channel")
	}
	if s == nil || s.Aborted() {
		c.closed = true
		return
	}
	c.sync(s)
	s.Yield(sched.KClose, c.id)
	if s.Aborted() {
		return
	}
	if c.closed {
		panic("close of closed channel")
	}
	me := s.CurTask()
	c.closed = true
	c.closeVC = append([]uint32(nil), me.VC...)
	me.VC[me.ID]++
	s.Yield(sched.KClose, c.id)
}

// CloseFromTimer closes the channel from a timer callback (no closing task, no yield).
func (c *Chan[T]) CloseFromTimer() {
	if c == nil {
		return
	}
	if s := sched.Cur; s != nil {
		c.sync(s)
		if vc := s.FiringVC(); vc != nil && c.closeVC == nil {
			c.closeVC = vc // arming the deadline happens before anybody observes the close
		}
	}
	c.closed = true
}

// Len is len(c); Cap is cap(c).
func (c *Chan[T]) Len() int {
	if c == nil {
		return 0 // len of a nil channel
	}
	return len(c.buf)
}

// Cap is cap(c).
func (c *Chan[T]) Cap() int {
	if c == nil {
		return 0
	}
	return c.capa
}

// Selected returns what the select statement received from c.
func (c *Chan[T]) Selected() (T, bool) { return c.selV, c.selOK }

// Selected1 returns the value the select statement received from c.
func (c *Chan[T]) Selected1() T { return c.selV }

// Case is one communication clause of a select statement.
type Case struct {
	ready     func() bool
	do        func(s *sched.Sim)
	id        int
	nilCh     bool
	unbufSend bool
	prep      func(s *sched.Sim)
	enq       func(s *sched.Sim, g *group) // receive clause: register as a blocked receiver
	deq       func()
	served    func(s *sched.Sim) bool // receive clause: was a value handed over while blocked? then take it
}

// RecvCase is `case ... <-c`.
func RecvCase[T any](c *Chan[T]) Case {
	if c == nil {
		return Case{nilCh: true}
	}
	var sl *rslot[T]
	return Case{
		prep:  func(s *sched.Sim) { c.sync(s) },
		ready: func() bool { return (sl != nil && sl.got) || c.recvReady() },
		do:    func(s *sched.Sim) { c.selV, c.selOK = c.doRecv(s) },
		enq:   func(s *sched.Sim, g *group) { sl = c.enqueue(s, g) },
		deq: func() {
			if sl != nil {
				c.dequeue(sl)
			}
		},
		served: func(s *sched.Sim) bool {
			if sl == nil || !sl.got {
				return false
			}
			c.selV, c.selOK = c.accept(s, sl)
			return true
		},
	}
}

// SendCase is `case c <- v`.
func SendCase[T any](c *Chan[T], v T) Case {
	if c == nil {
		return Case{nilCh: true}
	}
	return Case{
		prep:      func(s *sched.Sim) { c.sync(s) },
		ready:     c.sendReady,
		do:        func(s *sched.Sim) { c.doSend(s, v) },
		unbufSend: c.capa == 0,
	}
}

type selWait struct{ cases []Case }

func (w selWait) Free(t *sched.Task) bool {
	for _, c := range w.cases {
		if !c.nilCh && c.ready() {
			return true
		}
	}
	return false
}
func (w selWait) Name() string { return "select" }

// Select is the select statement: it returns the index of the clause that ran, -1 for
// default. Among several ready clauses the tape chooses (Go chooses pseudo-randomly).
func Select(hasDefault bool, cases ...Case) int {
	s := sched.Cur
	if s == nil || s.Aborted() {
		return -1
	}
	for _, c := range cases {
		if !c.nilCh {
			c.prep(s)
		}
	}
	s.Yield(sched.KSelect, len(cases))
	if s.Aborted() {
		return -1
	}
	for {
		var ready []int
		for i, c := range cases {
			if !c.nilCh && c.ready() {
				ready = append(ready, i)
			}
		}
		if len(ready) > 0 {
			i := ready[s.Tape.Choose(len(ready))]
			cases[i].do(s)
			return i
		}
		if hasDefault {
			return -1
		}
		live := false
		g := &group{}
		for _, c := range cases {
			if !c.nilCh {
				live = true
				if c.enq != nil {
					c.enq(s, g)
				}
			}
		}
		if !live {
			s.BlockOn(forever{}, 0)
			return -1
		}
		s.BlockOn(selWait{cases}, 0)
		g.done = true // whatever happens next, nobody else may serve this select any more
		for _, c := range cases {
			if !c.nilCh && c.deq != nil {
				c.deq()
			}
		}
		if s.Aborted() {
			return -1
		}
		// a sender handed a value to one of the receive clauses while this task was blocked: that
		// clause is the one that ran (the sender has already completed)
		for i, c := range cases {
			if !c.nilCh && c.served != nil && c.served(s) {
				return i
			}
		}
	}
}
