// Command racestage is the supplementary, uncontrolled stage of the C19 thorough tier: real
// goroutines on the real sync.Mutex and the real math/rand source, built with -race from the
// unmodified working tree. Its schedule is the Go runtime's, not the simulator's: a failure
// here is runtime monitoring, reported as such, and cannot be shrunk or replayed exactly.
package main

import (
	"fmt"
	"os"
	"runtime"
	"strconv"
	"sync"

	"go.lstv.dev/util/uu"
)

func main() {
	goroutines, per := 8, 20000
	if len(os.Args) > 2 {
		goroutines, _ = strconv.Atoi(os.Args[1])
		per, _ = strconv.Atoi(os.Args[2])
	}
	out := make([][]uu.ID, goroutines)
	var wg sync.WaitGroup
	start := make(chan struct{})
	for g := 0; g < goroutines; g++ {
		wg.Add(1)
		go func(g int) {
			defer wg.Done()
			ids := make([]uu.ID, 0, per)
			<-start
			for i := 0; i < per; i++ {
				ids = append(ids, uu.RandomID())
				if i%64 == g%64 {
					runtime.Gosched()
				}
			}
			out[g] = ids
		}(g)
	}
	close(start)
	wg.Wait()
	seen := make(map[uu.ID]struct{}, goroutines*per)
	var or, and [2]uint64
	and = [2]uint64{^uint64(0), ^uint64(0)}
	bad := 0
	for g := range out {
		for _, id := range out[g] {
			if (id.Higher>>12)&0xf != 4 || id.Lower>>62 != 2 || id.Version() != 4 || id.Variant() != 1 {
				fmt.Printf("racestage: layout: %016x%016x\n", id.Higher, id.Lower)
				bad++
			}
			if _, dup := seen[id]; dup {
				fmt.Printf("racestage: duplicate: %016x%016x\n", id.Higher, id.Lower)
				bad++
			}
			seen[id] = struct{}{}
			or[0] |= id.Higher
			or[1] |= id.Lower
			and[0] &= id.Higher
			and[1] &= id.Lower
			if bad > 5 {
				os.Exit(1)
			}
		}
	}
	if goroutines*per >= 256 {
		stuck := [2]uint64{^or[0] | and[0], ^or[1] | and[1]}
		if stuck != [2]uint64{0xf000, 0xc000000000000000} {
			fmt.Printf("racestage: bit coverage: constant positions %016x/%016x\n", stuck[0], stuck[1])
			bad++
		}
	}
	if bad > 0 {
		os.Exit(1)
	}
	fmt.Printf("racestage: ok goroutines=%d per=%d gomaxprocs=%d ids=%d\n", goroutines, per, runtime.GOMAXPROCS(0), len(seen))
}
