// Package vrace is the simulator's race detector for plain package-level variables of the
// code under test. The rewrite step inserts R(id)/W(id) before every statement that reads or
// writes such a variable (only variables that some function assigns to are instrumented).
// Each hook is a preemption point and a happens-before check on the vector clocks carried by
// the simulated synchronisation primitives (FastTrack-style: last write epoch, read clocks).
package vrace

import (
	"fmt"
	"strings"
	"unsafe"

	"go.lstv.dev/util/internal/vsim/sched"
)

type state struct {
	gen      uint64
	hasW     bool
	wTask    int
	wClock   uint32
	reads    []uint32
	aw       []uint32 // atomic writes (race only against plain accesses)
	ar       []uint32 // atomic reads (race only against plain writes)
	anyAtom  bool
}

var (
	// Names is filled by the generated registry: variable id -> "pkg.name".
	Names []string
	vars  []state
	// Enabled is switched off together with I2 when the tree synchronises in a way the
	// vector-clock model does not cover.
	Enabled = true
	// Accesses counts hook executions inside runs (probe).
	Accesses int64
	byAddr   = map[uintptr]int{}
)

// Register tells the detector the address of variable id (generated code calls it at every
// reset), so that sync/atomic function calls on &variable can be related to plain accesses.
func Register(id int, addr uintptr) {
	byAddr[addr] = id
}

type elemKey struct {
	id     int
	k1, k2 interface{}
}

var elems = map[elemKey]*state{}

// getK returns the state of one element of an indexed variable (looked up, never iterated).
func getK(s *sched.Sim, id int, keys []interface{}) *state {
	k := elemKey{id: id}
	if len(keys) > 0 {
		k.k1 = keys[0]
	}
	if len(keys) > 1 {
		k.k2 = fmt.Sprint(keys[1:]...)
	}
	v := elems[k]
	if v == nil {
		v = &state{}
		elems[k] = v
	}
	if v.gen != s.Gen {
		*v = state{gen: s.Gen, reads: make([]uint32, s.NumTasks()), aw: make([]uint32, s.NumTasks()), ar: make([]uint32, s.NumTasks())}
	}
	return v
}

// RK is a plain read of the element of variable id selected by keys.
func RK(id int, keys ...interface{}) { access(id, keys, false) }

// WK is a plain write of the element of variable id selected by keys.
func WK(id int, keys ...interface{}) { access(id, keys, true) }

func access(id int, keys []interface{}, write bool) {
	s := sched.Cur
	if s == nil || s.Aborted() {
		return
	}
	Accesses++
	s.Yield(sched.KAccess, id)
	if s.Aborted() || !Enabled {
		return
	}
	v := getK(s, id, keys)
	me := s.CurTask()
	what := fmt.Sprintf("%s%v", name(id), keys)
	if v.hasW && v.wTask != me.ID && me.VC[v.wTask] < v.wClock {
		failK(s, what, me, write, v.wTask, "previous write")
		return
	}
	if !write {
		v.reads[me.ID] = me.VC[me.ID]
		return
	}
	for u, c := range v.reads {
		if u != me.ID && c > me.VC[u] {
			failK(s, what, me, write, u, "previous read")
			return
		}
	}
	v.hasW, v.wTask, v.wClock = true, me.ID, me.VC[me.ID]
	for i := range v.reads {
		v.reads[i] = 0
	}
}

func failK(s *sched.Sim, what string, me *sched.Task, write bool, other int, otherWhat string) {
	verb := "read"
	if write {
		verb = "wrote"
	}
	s.Fail("I5-shared-variable-race", "race:"+strings.ReplaceAll(strings.ReplaceAll(what, " ", ","), "(", ""),
		fmt.Sprintf("t%d %s %s with no happens-before edge from the %s by t%d: a data race in the real program", me.ID, verb, what, otherWhat, other))
}

// ---- memory reached through pointers (receivers and parameters of pointer type): the hook
// passes the address of the field. Sound only because (a) the harness switches the garbage
// collector off for the duration of a run, so no heap address is reused within it, and (b)
// when a task ends, every address that only this task ever touched is forgotten, so a later
// goroutine that is given the same stack memory starts from a clean slate.

type addrState struct {
	state
	sole int // task id + 1 of the only task that touched it so far, -1 once shared
}

var (
	addrs     = map[uintptr]*addrState{}
	addrGen   uint64
	byCreator = map[int][]uintptr{}
)

func init() {
	sched.OnTaskExit = func(s *sched.Sim, id int) {
		if addrGen != s.Gen {
			return
		}
		for _, a := range byCreator[id] {
			if st := addrs[a]; st != nil && st.sole == id+1 {
				delete(addrs, a)
			}
		}
		delete(byCreator, id)
	}
}

// RA is a plain read of the memory at p; WA a plain write.
func RA(p unsafe.Pointer) { accessAddr(uintptr(p), false) }

// WA is a plain write of the memory at p.
func WA(p unsafe.Pointer) { accessAddr(uintptr(p), true) }

func accessAddr(a uintptr, write bool) {
	s := sched.Cur
	if s == nil || s.Aborted() {
		return
	}
	Accesses++
	s.Yield(sched.KAccess, 0)
	if s.Aborted() || !Enabled {
		return
	}
	if addrGen != s.Gen {
		addrGen = s.Gen
		addrs = map[uintptr]*addrState{}
		byCreator = map[int][]uintptr{}
	}
	me := s.CurTask()
	v := addrs[a]
	if v == nil {
		v = &addrState{state: state{gen: s.Gen, reads: make([]uint32, s.NumTasks())}, sole: me.ID + 1}
		addrs[a] = v
		byCreator[me.ID] = append(byCreator[me.ID], a)
	} else if v.sole != me.ID+1 {
		v.sole = -1
	}
	what := "memory reached through a pointer (a struct field)"
	if v.hasW && v.wTask != me.ID && me.VC[v.wTask] < v.wClock {
		failK(s, what, me, write, v.wTask, "previous write")
		return
	}
	if !write {
		v.reads[me.ID] = me.VC[me.ID]
		return
	}
	for u, c := range v.reads {
		if u != me.ID && c > me.VC[u] {
			failK(s, what, me, write, u, "previous read")
			return
		}
	}
	v.hasW, v.wTask, v.wClock = true, me.ID, me.VC[me.ID]
	for i := range v.reads {
		v.reads[i] = 0
	}
}

func get(s *sched.Sim, id int) *state {
	for len(vars) <= id {
		vars = append(vars, state{})
	}
	v := &vars[id]
	if v.gen != s.Gen {
		*v = state{gen: s.Gen, reads: make([]uint32, s.NumTasks()), aw: make([]uint32, s.NumTasks()), ar: make([]uint32, s.NumTasks())}
	}
	return v
}

func name(id int) string {
	if id < len(Names) {
		return Names[id]
	}
	return fmt.Sprintf("var#%d", id)
}

func fail(s *sched.Sim, id int, me *sched.Task, what string, other int, otherWhat string) {
	s.Fail("I5-shared-variable-race", "race:"+name(id),
		fmt.Sprintf("t%d %s package-level variable %s with no happens-before edge from the %s by t%d: a data race in the real program", me.ID, what, name(id), otherWhat, other))
}

// R is a plain read of variable id.
func R(id int) {
	s := sched.Cur
	if s == nil || s.Aborted() {
		return
	}
	Accesses++
	s.Yield(sched.KAccess, id)
	if s.Aborted() || !Enabled {
		return
	}
	v := get(s, id)
	me := s.CurTask()
	if v.hasW && v.wTask != me.ID && me.VC[v.wTask] < v.wClock {
		fail(s, id, me, "read", v.wTask, "previous write")
		return
	}
	if v.anyAtom {
		for u, c := range v.aw {
			if u != me.ID && c > me.VC[u] {
				fail(s, id, me, "read (plain)", u, "atomic write")
				return
			}
		}
	}
	v.reads[me.ID] = me.VC[me.ID]
}

// W is a plain write of variable id.
func W(id int) {
	s := sched.Cur
	if s == nil || s.Aborted() {
		return
	}
	Accesses++
	s.Yield(sched.KAccess, id)
	if s.Aborted() || !Enabled {
		return
	}
	v := get(s, id)
	me := s.CurTask()
	if v.hasW && v.wTask != me.ID && me.VC[v.wTask] < v.wClock {
		fail(s, id, me, "wrote", v.wTask, "previous write")
		return
	}
	for u, c := range v.reads {
		if u != me.ID && c > me.VC[u] {
			fail(s, id, me, "wrote", u, "previous read")
			return
		}
	}
	if v.anyAtom {
		for u := range v.aw {
			if u != me.ID && (v.aw[u] > me.VC[u] || v.ar[u] > me.VC[u]) {
				fail(s, id, me, "wrote (plain)", u, "atomic access")
				return
			}
		}
	}
	v.hasW, v.wTask, v.wClock = true, me.ID, me.VC[me.ID]
	for i := range v.reads {
		v.reads[i] = 0
	}
}

// Atomic is called by vatomic for an atomic access to the memory at addr, before the
// operation's own synchronisation is applied: it races with unordered plain accesses.
func Atomic(s *sched.Sim, addr uintptr, write bool) {
	if !Enabled {
		return
	}
	id, ok := byAddr[addr]
	if !ok {
		return
	}
	v := get(s, id)
	me := s.CurTask()
	if v.hasW && v.wTask != me.ID && me.VC[v.wTask] < v.wClock {
		fail(s, id, me, "accessed atomically", v.wTask, "plain write")
		return
	}
	v.anyAtom = true
	if !write {
		v.ar[me.ID] = me.VC[me.ID]
		return
	}
	for u, c := range v.reads {
		if u != me.ID && c > me.VC[u] {
			fail(s, id, me, "wrote atomically", u, "plain read")
			return
		}
	}
	v.aw[me.ID] = me.VC[me.ID]
}
