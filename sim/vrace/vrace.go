// Package vrace is the simulator's race detector for plain package-level variables of the
// code under test. The rewrite step inserts R(id)/W(id) before every statement that reads or
// writes such a variable (only variables that some function assigns to are instrumented).
// Each hook is a preemption point and a happens-before check on the vector clocks carried by
// the simulated synchronisation primitives (FastTrack-style: last write epoch, read clocks).
package vrace

import (
	"fmt"

	"go.lstv.dev/util/internal/vsim/sched"
)

type state struct {
	gen      uint64
	hasW     bool
	wTask    int
	wClock   uint32
	reads    []uint32
	aw       []uint32 // atomic writes (race only against plain accesses)
	ar       []uint32 // atomic reads (race only against plain writes)
	anyAtom  bool
}

var (
	// Names is filled by the generated registry: variable id -> "pkg.name".
	Names []string
	vars  []state
	// Enabled is switched off together with I2 when the tree synchronises in a way the
	// vector-clock model does not cover.
	Enabled = true
	// Accesses counts hook executions inside runs (probe).
	Accesses int64
	byAddr   = map[uintptr]int{}
)

// Register tells the detector the address of variable id (generated code calls it at every
// reset), so that sync/atomic function calls on &variable can be related to plain accesses.
func Register(id int, addr uintptr) {
	byAddr[addr] = id
}

func get(s *sched.Sim, id int) *state {
	for len(vars) <= id {
		vars = append(vars, state{})
	}
	v := &vars[id]
	if v.gen != s.Gen {
		*v = state{gen: s.Gen, reads: make([]uint32, s.NumTasks()), aw: make([]uint32, s.NumTasks()), ar: make([]uint32, s.NumTasks())}
	}
	return v
}

func name(id int) string {
	if id < len(Names) {
		return Names[id]
	}
	return fmt.Sprintf("var#%d", id)
}

func fail(s *sched.Sim, id int, me *sched.Task, what string, other int, otherWhat string) {
	s.Fail("I5-shared-variable-race", "race:"+name(id),
		fmt.Sprintf("t%d %s package-level variable %s with no happens-before edge from the %s by t%d: a data race in the real program", me.ID, what, name(id), otherWhat, other))
}

// R is a plain read of variable id.
func R(id int) {
	s := sched.Cur
	if s == nil || s.Aborted() {
		return
	}
	Accesses++
	s.Yield(sched.KAccess, id)
	if s.Aborted() || !Enabled {
		return
	}
	v := get(s, id)
	me := s.CurTask()
	if v.hasW && v.wTask != me.ID && me.VC[v.wTask] < v.wClock {
		fail(s, id, me, "read", v.wTask, "previous write")
		return
	}
	if v.anyAtom {
		for u, c := range v.aw {
			if u != me.ID && c > me.VC[u] {
				fail(s, id, me, "read (plain)", u, "atomic write")
				return
			}
		}
	}
	v.reads[me.ID] = me.VC[me.ID]
}

// W is a plain write of variable id.
func W(id int) {
	s := sched.Cur
	if s == nil || s.Aborted() {
		return
	}
	Accesses++
	s.Yield(sched.KAccess, id)
	if s.Aborted() || !Enabled {
		return
	}
	v := get(s, id)
	me := s.CurTask()
	if v.hasW && v.wTask != me.ID && me.VC[v.wTask] < v.wClock {
		fail(s, id, me, "wrote", v.wTask, "previous write")
		return
	}
	for u, c := range v.reads {
		if u != me.ID && c > me.VC[u] {
			fail(s, id, me, "wrote", u, "previous read")
			return
		}
	}
	if v.anyAtom {
		for u := range v.aw {
			if u != me.ID && (v.aw[u] > me.VC[u] || v.ar[u] > me.VC[u]) {
				fail(s, id, me, "wrote (plain)", u, "atomic access")
				return
			}
		}
	}
	v.hasW, v.wTask, v.wClock = true, me.ID, me.VC[me.ID]
	for i := range v.reads {
		v.reads[i] = 0
	}
}

// Atomic is called by vatomic for an atomic access to the memory at addr, before the
// operation's own synchronisation is applied: it races with unordered plain accesses.
func Atomic(s *sched.Sim, addr uintptr, write bool) {
	if !Enabled {
		return
	}
	id, ok := byAddr[addr]
	if !ok {
		return
	}
	v := get(s, id)
	me := s.CurTask()
	if v.hasW && v.wTask != me.ID && me.VC[v.wTask] < v.wClock {
		fail(s, id, me, "accessed atomically", v.wTask, "plain write")
		return
	}
	v.anyAtom = true
	if !write {
		v.ar[me.ID] = me.VC[me.ID]
		return
	}
	for u, c := range v.reads {
		if u != me.ID && c > me.VC[u] {
			fail(s, id, me, "wrote atomically", u, "plain read")
			return
		}
	}
	v.aw[me.ID] = me.VC[me.ID]
}
