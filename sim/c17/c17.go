package c17

import (
	"bytes"
	"encoding"
	"encoding/json"
	"errors"
	"fmt"
	"math"
	"reflect"
	"strings"
	"time"

	"go.lstv.dev/util/date"
	"go.lstv.dev/util/internal/vsim/core"
	"go.lstv.dev/util/roman"
	"go.lstv.dev/util/sem"
	"go.lstv.dev/util/size"
	"go.lstv.dev/util/uu"
)

// Prop is the C17 check.
type Prop struct{}

// ID implements core.Property.
func (Prop) ID() string { return "C17" }

// Budget implements core.Property.
func (Prop) Budget(tier string) int {
	if tier == "thorough" {
		return 6000000
	}
	return 240000
}

// Describe implements core.Property.
func (Prop) Describe() core.Description {
	return core.Description{
		Level: "exploration",
		Rule: "one run = one seeded history of 10-200 operations by a single caller on one receiver per type (date, roman, sem, size, uu): records written by the real marshalers, read through a fault-injecting read path " +
			"(truncate, bitflip, bytesub, insert, delete, doubled, pad-over-limit, empty, foreign, caseflip, space), decoded by the real UnmarshalText/UnmarshalJSON/UnmarshalBinary/Scan/json.Unmarshal or function-level parsers in four instantiations; " +
			"Parser-seam error injection, MaxInputLength changes mid-history, buffer reuse with scribbling. Invariants after every step: A failure atomicity against the reference model, B input immutability, C no aliasing after scribble, D string/bytes agreement, H same content under the same configuration gives the same outcome throughout a history (no state kept from earlier calls or buffers). " +
			"The first third of the runs injects no faults. A history is non-trivial if it contains a failing call on a receiver holding a non-zero value decoded by an earlier successful call of the same history; distinct = distinct hashes of the (type, entry, fault, stub, prior state, outcome) sequences of its calls",
		Assumptions: []string{
			"Go's == on the five value types is the notion of 'exactly as it was' (comparable structs/integers; Ver strings by content, aliasing caught separately by C)",
			"error texts are compared immediately after each call (the library's error values keep a reference to a []byte input and format lazily)",
			"a panic inside a call is C18's subject, not C17's: it is recovered and counted, A and B are still checked for that step",
			"sampled histories, not an enumeration",
		},
		Real: []string{"date, roman, sem, size, uu packages unmodified: all Unmarshal*/Scan methods, DefaultParser/Parse*/Valid/Compare*/Latest* in string, []byte, named-string and named-bytes instantiations, all marshalers used to write records", "encoding/json (json.Unmarshal entry)"},
		Stub: []string{"record store and read path (simulated, fault-injecting)", "caller's buffer pool (arena with canaries, scribbled on reuse)", "package Parser variables replaced by an error-injecting stub for single calls"},
		Notes: map[string]string{
			"sim_time_note": "C17 has no clock in it; sim_time_ns is 0 by construction",
		},
		RequiredProbesQuick: []string{"fail_after_success", "success_after_fail", "stub_error_with_data", "too_long_rejected", "scribble_then_check", "named_type_calls", "clean_mode_runs", "same_content_parsed_again", "reparse_after_scribble", "pair_related_arguments"},
		RequiredProbes:      []string{"fail_after_success_date", "fail_after_success_roman", "fail_after_success_sem", "fail_after_success_size", "fail_after_success_uu", "scan_fail_after_success", "binary_fail_after_success"},
	}
}

// EnumSize implements core.Property: nothing is enumerated.
func (Prop) EnumSize(tier string) int { return 0 }

// RunEnum implements core.Property.
func (Prop) RunEnum(i int, o core.RunOpts) *core.Result { return nil }

// Prelude implements core.Property.
func (Prop) Prelude(o core.RunOpts) *core.Result { return core.NewResult() }

// package defaults captured at start-up; every run starts from them and restores them
var (
	defDateParser  = date.Parser
	defRomanParser = roman.Parser
	defSemParser   = sem.Parser
	defSizeParser  = size.Parser
	defUUParser    = uu.Parser
	defLimits      = [NumTypes]int{date.MaxInputLength, roman.MaxInputLength, sem.MaxInputLength, size.MaxInputLength, uu.MaxInputLength}
	defSizeRule    = size.DefaultRule
	defMaxKeys     = size.MaxObjectKeys
)

func restoreGlobals() {
	date.Parser, roman.Parser, sem.Parser, size.Parser, uu.Parser = defDateParser, defRomanParser, defSemParser, defSizeParser, defUUParser
	date.MaxInputLength, roman.MaxInputLength, sem.MaxInputLength, size.MaxInputLength, uu.MaxInputLength = defLimits[0], defLimits[1], defLimits[2], defLimits[3], defLimits[4]
	size.DefaultRule = defSizeRule
	size.MaxObjectKeys = defMaxKeys
}

func setLimit(ty, v int) {
	switch ty {
	case TDate:
		date.MaxInputLength = v
	case TRoman:
		roman.MaxInputLength = v
	case TSem:
		sem.MaxInputLength = v
	case TSize:
		size.MaxInputLength = v
	case TUU:
		uu.MaxInputLength = v
	}
}

var errInjected = errors.New("vsim: injected parser failure")

// method-level entries
const (
	EUnmarshalText = iota
	EUnmarshalJSON
	EUnmarshalBinary
	EScan
	EJSONStd
	numEntries
)

var entryNames = [...]string{"UnmarshalText", "UnmarshalJSON", "UnmarshalBinary", "Scan", "json.Unmarshal"}

var entriesOf = [NumTypes][]int{
	TDate:  {EUnmarshalText, EUnmarshalText, EUnmarshalBinary, EUnmarshalBinary, EScan, EScan, EJSONStd},
	TRoman: {EUnmarshalText, EUnmarshalText, EUnmarshalText, EJSONStd},
	TSem:   {EUnmarshalText, EUnmarshalText, EUnmarshalText, EJSONStd},
	TSize:  {EUnmarshalText, EUnmarshalText, EUnmarshalJSON, EUnmarshalJSON, EJSONStd},
	TUU:    {EUnmarshalText, EUnmarshalText, EUnmarshalText, EJSONStd},
}

// buffer pool: every input handed to the library is a sub-slice of an arena with canaries
const canaryLen = 8

type buffer struct {
	arena  []byte
	n      int
	want   []byte // what the caller last put there: the library must never change it, not even later
	canary []byte // the bytes before and after, as laid out
}

// newBuffer lays content out between two canaries. What follows a record in its caller's
// buffer is the caller's business — the rest of a network read, the previous record, zeros —
// so the canary pattern varies (kind, from the tape): a parser whose result depends on bytes
// beyond len disagrees with the string instantiation for some pattern.
func newBuffer(content []byte, kind int, w uint64) *buffer {
	a := make([]byte, canaryLen+len(content)+canaryLen)
	for i := range a {
		switch kind {
		case 1:
			a[i] = 0x00
		case 2:
			a[i] = 0xFF
		case 3:
			a[i] = '7'
		case 4:
			a[i] = 'f'
		case 5:
			w = w*6364136223846793005 + 1442695040888963407
			a[i] = byte(w >> 56)
		case 6:
			if len(content) > 0 {
				a[i] = content[i%len(content)] // more of the same
			} else {
				a[i] = '1'
			}
		case 7:
			a[i] = "/\xc3\xa9t\xc3\xa9 20"[i%9]
		default:
			a[i] = 0xA5
		}
	}
	copy(a[canaryLen:], content)
	return &buffer{arena: a, n: len(content), want: append([]byte(nil), content...), canary: append(append([]byte(nil), a[:canaryLen]...), a[len(a)-canaryLen:]...)}
}

func (b *buffer) data() []byte { return b.arena[canaryLen : canaryLen+b.n : len(b.arena)] }

func (b *buffer) canaryIntact() bool {
	return bytes.Equal(b.arena[:canaryLen], b.canary[:canaryLen]) && bytes.Equal(b.arena[len(b.arena)-canaryLen:], b.canary[canaryLen:])
}

type sentinel struct {
	pe      int
	rule    int
	content []byte
	cfg     string
}

type memoEntry struct {
	val     interface{}
	errText string
	step    int
}

type bagItem struct {
	val  interface{}
	copy interface{}
	from string
}

type hist struct {
	t     *core.Tape
	o     core.RunOpts
	res   *core.Result
	hash  core.Hash64
	class core.Hash64
	trace []string
	step  int

	recv  [NumTypes]interface{} // pointers to the receivers
	d     date.Date
	n     roman.Number
	v     sem.Ver
	s     size.Size
	id    uu.ID
	model [NumTypes]interface{}
	// provenance of the model value: 0 start value, 1 decoded by a successful call, 2 zero start
	prov      [NumTypes]int
	failedYet [NumTypes]bool

	memo  map[string]memoEntry // H: outcome of a function-level parser for (entry, rule, limits, content)
	seenP []sentinel           // function-level parses of this history that can be repeated later
	pool  []*buffer
	bag   []bagItem
	store []Record
	clean bool
	stop  bool

	memoKey string

	seenM  []methodCall // method-level calls of this history that can be repeated later
	repeat *methodCall  // set while one of them is being repeated
}

type methodCall struct {
	ty, entry int
	content   []byte
}

// intended is the configuration as the harness set it (every switch a parser's outcome may
// depend on). The memo of invariant H is keyed by what the caller configured, not by what the
// package variables happen to hold: a call that leaves a switch changed behind shows up as
// the same content giving another outcome under the same intended configuration.
type intended struct {
	limits  [NumTypes]int
	rule    size.Rule
	maxKeys int
}

var cfg intended

func resetIntended() {
	cfg = intended{limits: defLimits, rule: defSizeRule, maxKeys: defMaxKeys}
}

func configKey() string {
	return fmt.Sprintf("%v/%d/%d", cfg.limits, int(cfg.rule), cfg.maxKeys)
}

func deep(v interface{}) interface{} {
	if x, ok := v.(sem.Ver); ok {
		x.PreRelease = strings.Clone(x.PreRelease)
		x.Build = strings.Clone(x.Build)
		return x
	}
	return v
}

func (h *hist) cur(ty int) interface{} {
	switch ty {
	case TDate:
		return h.d
	case TRoman:
		return h.n
	case TSem:
		return h.v
	case TSize:
		return h.s
	}
	return h.id
}

func (h *hist) isZero(ty int) bool {
	switch ty {
	case TDate:
		return h.d == date.Date{}
	case TRoman:
		return h.n == 0
	case TSem:
		return h.v == sem.Ver{}
	case TSize:
		return h.s == 0
	}
	return h.id == uu.ID{}
}

func hashVal(hh *core.Hash64, v interface{}) {
	switch x := v.(type) {
	case date.Date:
		y, m, d := x.Date()
		hh.Add(uint64(int64(y)))
		hh.Add(uint64(m)<<8 | uint64(uint8(d)))
	case roman.Number:
		hh.Add(uint64(x))
	case sem.Ver:
		hh.Add(x.Major)
		hh.Add(x.Minor)
		hh.Add(x.Patch)
		hh.AddString(x.PreRelease)
		hh.AddString(x.Build)
	case size.Size:
		hh.Add(uint64(x))
	case uu.ID:
		hh.Add(x.Higher)
		hh.Add(x.Lower)
	case int:
		hh.Add(uint64(int64(x)))
	case unit:
		hh.Add(7)
	default:
		hh.AddString(fmt.Sprintf("%T", v))
	}
}

func showVal(v interface{}) string {
	switch x := v.(type) {
	case date.Date:
		y, m, d := x.Date()
		return fmt.Sprintf("date(%d-%d-%d)", y, int(m), d)
	case sem.Ver:
		return fmt.Sprintf("ver(%d.%d.%d pre=%q build=%q)", x.Major, x.Minor, x.Patch, x.PreRelease, x.Build)
	case uu.ID:
		return fmt.Sprintf("id(%016x%016x)", x.Higher, x.Lower)
	case roman.Number:
		return fmt.Sprintf("roman(%d)", uint64(x))
	case size.Size:
		return fmt.Sprintf("size(%d)", uint64(x))
	}
	return fmt.Sprintf("%v", v)
}

func (h *hist) logf(format string, a ...interface{}) {
	if h.o.KeepTrace {
		h.trace = append(h.trace, fmt.Sprintf("op %d: ", h.step)+fmt.Sprintf(format, a...))
	}
}

// violate reports a violation; a listed finding is recorded and the history goes on.
func (h *hist) violate(inv, key, detail string) bool {
	v := &core.Violation{Property: "C17", Invariant: inv, Key: key, Detail: detail}
	h.logf("VIOLATION %s %s: %s", inv, key, detail)
	if h.o.IsKnown != nil && h.o.IsKnown(v) {
		h.res.Known = append(h.res.Known, v)
		return false
	}
	if h.res.Violation == nil {
		h.res.Violation = v
	}
	h.stop = true
	return true
}

// Run implements core.Property.
func (Prop) Run(t *core.Tape, o core.RunOpts) *core.Result {
	// every history starts from the packages' initial state: the generated VsimReset
	// re-executes all package-level initialisers (caches, counters, anything an edited tree
	// adds), restoreGlobals puts back the documented switches
	resetPackages()
	restoreGlobals()
	resetIntended()
	defer restoreGlobals()
	h := &hist{t: t, o: o, res: core.NewResult(), hash: core.NewHash(), class: core.NewHash(), memo: map[string]memoEntry{}}
	res := h.res
	mode := t.Choose(3) // 0 = clean (no faults), 1, 2 = fault-injecting
	h.clean = mode == 0
	maxOps := 60
	if o.Tier == "thorough" {
		maxOps = 200
	}
	nOps := 10 + t.Choose(maxOps-9)
	if h.clean {
		res.Probes.Inc("clean_mode_runs")
		res.Strategy = "clean"
	} else {
		res.Strategy = "faulty"
	}
	// receivers start from tape-chosen, mostly non-zero values
	for ty := 0; ty < NumTypes; ty++ {
		if t.Bool(1, 5) {
			h.prov[ty] = 2
			continue
		}
		switch ty {
		case TDate:
			h.d = genDate(t)
		case TRoman:
			h.n = genRoman(t)
		case TSem:
			h.v = genSem(t)
		case TSize:
			h.s = genSize(t)
		case TUU:
			h.id = genUU(t)
		}
	}
	for ty := 0; ty < NumTypes; ty++ {
		h.model[ty] = deep(h.cur(ty))
	}
	h.logf("start clean=%v ops=%d receivers: %s %s %s %s %s", h.clean, nOps, showVal(h.d), showVal(h.n), showVal(h.v), showVal(h.s), showVal(h.id))

	for h.step = 1; h.step <= nOps && !h.stop; h.step++ {
		var op int
		if h.clean {
			op = [...]int{0, 0, 0, 1, 1, 2, 4}[t.Choose(7)]
		} else {
			op = [...]int{0, 0, 0, 0, 0, 1, 1, 2, 3, 4}[t.Choose(10)]
		}
		h.hash.Add(uint64(op))
		switch op {
		case 0:
			h.opCall()
		case 1:
			h.opParse()
		case 2:
			h.opScribble()
		case 3:
			h.opSetLimit()
		case 4:
			h.opPair()
		}
		if !h.stop {
			h.checkModels("after op")
		}
	}
	res.TraceHash = uint64(h.hash)
	res.Class = uint64(h.class)
	res.Trace = h.trace
	res.Steps = int64(h.step - 1)
	return res
}

// checkModels: every receiver equals its model at every step.
func (h *hist) checkModels(when string) {
	for ty := 0; ty < NumTypes; ty++ {
		if h.cur(ty) != h.model[ty] {
			if h.violate("C-aliasing", typeNames[ty]+".receiver", fmt.Sprintf("%s: %s receiver is %s but the last successful call left %s (value changed without a successful call)", when, typeNames[ty], showVal(h.cur(ty)), showVal(h.model[ty]))) {
				return
			}
			h.model[ty] = deep(h.cur(ty))
		}
	}
}

func (h *hist) pickRecord(ty int) Record {
	// reuse a stored record sometimes (the same record read twice, once damaged)
	if len(h.store) > 0 && h.t.Bool(1, 4) {
		r := h.store[h.t.Choose(len(h.store))]
		if r.Type == ty {
			return r
		}
	}
	r := genRecord(h.t, ty)
	if len(h.store) < 12 {
		h.store = append(h.store, r)
	} else {
		h.store[h.t.Choose(len(h.store))] = r
	}
	return r
}

func (h *hist) pickFault() int {
	if h.clean {
		return FIntact
	}
	if h.t.Bool(1, 3) {
		return FIntact
	}
	return 1 + h.t.Choose(NumFaults-1)
}

func (h *hist) readRecord(ty int, fault int, rec Record) []byte {
	in := applyFault(h.t, fault, rec.Bytes, func() []byte {
		o := (ty + 1 + h.t.Choose(NumTypes-1)) % NumTypes
		return genRecord(h.t, o).Bytes
	})
	if fault != FIntact {
		h.res.Faults.Inc("read_" + faultNames[fault])
	}
	return in
}

func (h *hist) lease(content []byte) *buffer {
	kind := 0
	if !h.clean && h.t.Bool(1, 2) {
		kind = 1 + h.t.Choose(7)
	}
	b := newBuffer(content, kind, h.t.Word())
	if len(h.pool) < 24 {
		h.pool = append(h.pool, b)
	} else {
		h.pool[h.t.Choose(len(h.pool))] = b
	}
	return b
}

// genValue draws a value of the type.
func genValue(t *core.Tape, ty int) interface{} {
	switch ty {
	case TDate:
		return genDate(t)
	case TRoman:
		return genRoman(t)
	case TSem:
		return genSem(t)
	case TSize:
		return genSize(t)
	}
	return genUU(t)
}

// plainObject renders a struct value as a JSON object of its exported fields (nil for other
// kinds and for structs without exported fields). Keys are the Go field names or their
// lower-case form (encoding/json matches keys case-insensitively); with odd choose values one
// member gets a value of another JSON type.
func plainObject(t *core.Tape, v interface{}) []byte {
	rv := reflect.ValueOf(v)
	if rv.Kind() != reflect.Struct {
		return nil
	}
	type member struct{ k, v string }
	var ms []member
	for i := 0; i < rv.NumField(); i++ {
		f := rv.Type().Field(i)
		if f.PkgPath != "" {
			continue
		}
		b, err := json.Marshal(rv.Field(i).Interface())
		if err != nil {
			continue
		}
		ms = append(ms, member{f.Name, string(b)})
	}
	if len(ms) == 0 {
		// no exported fields: what the value's own accessors say (Year(), Month(), Day() ...) is
		// what a peer would write down; a random one to three of them
		var all []member
		for i := 0; i < rv.NumMethod(); i++ {
			m := rv.Type().Method(i)
			mt := m.Type
			switch m.Name {
			case "String", "GoString", "Error", "Format", "IsZero":
				continue
			}
			if mt.NumIn() != 1 || mt.NumOut() != 1 {
				continue
			}
			switch mt.Out(0).Kind() {
			case reflect.Int, reflect.Int8, reflect.Int16, reflect.Int32, reflect.Int64, reflect.Uint, reflect.Uint8, reflect.Uint16, reflect.Uint32, reflect.Uint64:
			default:
				continue
			}
			var out []reflect.Value
			func() {
				defer func() { recover() }()
				out = rv.Method(i).Call(nil)
			}()
			if len(out) != 1 {
				continue
			}
			n := out[0].Convert(reflect.TypeOf(int64(0)))
			if out[0].Kind() >= reflect.Uint && out[0].Kind() <= reflect.Uint64 {
				n = reflect.ValueOf(int64(out[0].Uint()))
			}
			all = append(all, member{m.Name, fmt.Sprintf("%d", n.Int())})
		}
		if len(all) == 0 {
			return nil
		}
		k := 1 + t.Choose(3)
		for j := 0; j < k && len(all) > 0; j++ {
			i := t.Choose(len(all))
			ms = append(ms, all[i])
			all = append(all[:i], all[i+1:]...)
		}
	}
	lower := t.Bool(1, 2)
	if t.Bool(1, 2) {
		i := t.Choose(len(ms))
		alts := [...]string{`"x"`, "null", "1.5", "-1", "[]", "{}", "true", "340282366920938463463374607431768211456", `"7"`, "7"}
		ms[i].v = alts[t.Choose(len(alts))]
	}
	if t.Bool(1, 4) && len(ms) > 1 {
		i, j := t.Choose(len(ms)), t.Choose(len(ms))
		ms[i], ms[j] = ms[j], ms[i]
	}
	out := []byte{'{'}
	for i, m := range ms {
		if i > 0 {
			out = append(out, ',')
		}
		k := m.k
		if lower {
			k = strings.ToLower(k)
		}
		out = append(out, '"')
		out = append(out, k...)
		out = append(out, '"', ':')
		out = append(out, m.v...)
	}
	return append(out, '}')
}

// altEncoders lists the niladic methods of a type (value or pointer receiver) that return
// ([]byte, error) and are not one of the standard three: encoders an edited tree has added.
var altEncoderCache = map[int][]string{}

func altEncoders(ty int) []string {
	if ms, ok := altEncoderCache[ty]; ok {
		return ms
	}
	ms := []string{}
	pt := reflect.PtrTo(reflect.TypeOf(zeroOf(ty)))
	errT := reflect.TypeOf((*error)(nil)).Elem()
	for i := 0; i < pt.NumMethod(); i++ {
		m := pt.Method(i)
		switch m.Name {
		case "MarshalBinary", "MarshalText", "MarshalJSON", "GobEncode":
			continue
		}
		if m.Type.NumIn() == 1 && m.Type.NumOut() == 2 && m.Type.Out(0) == reflect.TypeOf([]byte(nil)) && m.Type.Out(1) == errT {
			ms = append(ms, m.Name)
		}
	}
	altEncoderCache[ty] = ms
	return ms
}

func callEncoder(v interface{}, method string) (b []byte, ok bool) {
	defer func() {
		if recover() != nil {
			b, ok = nil, false
		}
	}()
	p := reflect.New(reflect.TypeOf(v))
	p.Elem().Set(reflect.ValueOf(v))
	out := p.MethodByName(method).Call(nil)
	if !out[1].IsNil() {
		return nil, false
	}
	return out[0].Bytes(), true
}

// textAccepted: does the type's own text parser (default rule, current limits) accept s?
func textAccepted(ty int, s string) (ok bool) {
	defer func() {
		if recover() != nil {
			ok = false
		}
	}()
	var err error
	switch ty {
	case TDate:
		_, err = date.DefaultParser(s, 0)
	case TRoman:
		_, err = roman.DefaultParser(s, 0)
	case TSem:
		_, err = sem.DefaultParser(s, 0)
	case TSize:
		_, err = size.DefaultParser(s, 0)
	default:
		_, err = uu.DefaultParser(s, 0)
	}
	return err == nil
}

// sqlScanner is database/sql.Scanner.
type sqlScanner interface{ Scan(src interface{}) error }

// ptr returns the pointer to the receiver of a type.
func (h *hist) ptr(ty int) interface{} {
	switch ty {
	case TDate:
		return &h.d
	case TRoman:
		return &h.n
	case TSem:
		return &h.v
	case TSize:
		return &h.s
	}
	return &h.id
}

var scanZone = time.FixedZone("vsim+0530", 5*3600+1800)

// opCall: one Unmarshal*/Scan call on a receiver.
func (h *hist) opCall() {
	t := h.t
	ty := t.Choose(NumTypes)
	ents := entriesOf[ty]
	entry := ents[t.Choose(len(ents))]
	rec := h.pickRecord(ty)
	if h.repeat != nil {
		// the same entry point on the same content as an earlier call of this history
		ty, entry = h.repeat.ty, h.repeat.entry
		rec = Record{ty, RText, append([]byte(nil), h.repeat.content...), "an earlier call's content again"}
	}
	if h.clean {
		// a clean call uses the entry that matches the record kind
		switch {
		case rec.Kind == RBinary:
			entry = EUnmarshalBinary
		case rec.Kind == RJSON:
			entry = EUnmarshalJSON
		case entry == EUnmarshalBinary || entry == EScan || entry == EUnmarshalJSON:
			entry = EUnmarshalText
		}
	}
	// entry points an edited tree may have grown: Scan or UnmarshalBinary on a type that has
	// none today (found at run time; nothing is drawn from the tape when there is none)
	if ty != TDate && !h.clean && h.repeat == nil {
		_, hasScan := h.ptr(ty).(sqlScanner)
		_, hasBin := h.ptr(ty).(encoding.BinaryUnmarshaler)
		if (hasScan || hasBin) && t.Bool(1, 3) {
			if hasScan && (!hasBin || t.Bool(1, 2)) {
				entry = EScan
			} else {
				entry = EUnmarshalBinary
			}
			h.res.Probes.Inc("new_entry_point_called")
		}
	}
	if entry == EUnmarshalBinary && ty != TDate && h.repeat == nil && t.Bool(3, 4) {
		// a binary form an edited tree has given the type: frames come from its own MarshalBinary
		// (so they are structurally right) and are then damaged like any other record
		if bm, ok := genValue(t, ty).(encoding.BinaryMarshaler); ok {
			if b, err := bm.MarshalBinary(); err == nil {
				rec = Record{ty, RBinary, b, typeNames[ty] + ".MarshalBinary"}
			}
		}
	}
	if entry == EUnmarshalBinary && h.repeat == nil {
		// ... and from any other encoder an edited tree has added beside it (a compact form, a new
		// format version): niladic methods that return ([]byte, error). Nothing is drawn when the
		// type has none.
		if ms := altEncoders(ty); len(ms) > 0 && t.Bool(1, 2) {
			m := ms[t.Choose(len(ms))]
			if b, ok := callEncoder(genValue(t, ty), m); ok {
				rec = Record{ty, RBinary, b, typeNames[ty] + "." + m}
				h.res.Probes.Inc("frame_from_added_encoder")
			}
		}
	}
	fault := h.pickFault()
	input := h.readRecord(ty, fault, rec)
	if h.repeat != nil {
		fault, input = FIntact, append([]byte(nil), h.repeat.content...)
	}
	stub := 0
	if h.repeat == nil && !h.clean && (entry == EUnmarshalText || entry == EUnmarshalJSON) && t.Bool(1, 6) {
		stub = 1 + t.Choose(4) // 1 = (garbage, error), 2 = (value, nil), 3 = (a value no default parser would produce, nil), 4 = the seam panics
	}
	var scanSrc interface{}
	scanKind := 0
	if entry == EScan {
		scanKind = t.Choose(17)
		if h.clean {
			scanKind = t.Choose(2)
		}
		if ty != TDate && t.Bool(2, 3) {
			scanKind = 4 + t.Choose(2) // text, as string or as []byte: what a driver hands over for these types
		}
	}
	plainObj := false
	if entry == EJSONStd && !h.clean && h.repeat == nil && t.Bool(1, 4) {
		// what a peer sends that knows the type's fields and nothing of its text form: the value
		// as a plain JSON object, with one member of the wrong JSON type half of the time
		if doc := plainObject(t, genValue(t, ty)); doc != nil {
			input, plainObj = doc, true
			h.res.Faults.Inc("json_plain_object_document")
		}
	}
	if entry == EJSONStd && !plainObj && h.repeat == nil {
		// encoding/json hands a TextUnmarshaler the unquoted string
		if ty != TSize || rec.Kind != RJSON {
			q, _ := json.Marshal(string(input))
			if fault == FIntact || t.Bool(1, 2) {
				input = q
			}
		}
	}
	buf := h.lease(input)
	data := buf.data()
	pre := deep(h.cur(ty))
	preIn := append([]byte(nil), data...)
	if entry == EScan {
		switch scanKind {
		case 0:
			scanSrc = time.Date(1+t.Choose(9999), time.Month(1+t.Choose(12)), 1+t.Choose(28), t.Choose(24), t.Choose(60), 0, 0, time.UTC)
		case 1:
			scanSrc = time.Date(1900+t.Choose(200), time.Month(1+t.Choose(12)), 1+t.Choose(28), 23, 59, 59, 0, scanZone)
		case 2:
			scanSrc = time.Time{}
		case 3:
			tm := time.Date(2001, 2, 3, 4, 5, 6, 0, time.UTC)
			scanSrc = &tm
		case 4:
			scanSrc = string(data)
		case 5:
			scanSrc = data
		case 6:
			scanSrc = nil
		case 7:
			scanSrc = int64(t.Choose(1 << 20))
		case 8:
			scanSrc = genDate(t)
		case 9:
			scanSrc = (*time.Time)(nil) // typed nil, as a nullable column hands over
		case 10:
			scanSrc = []byte(nil)
		case 11:
			var ps *string
			scanSrc = ps
		case 12:
			var pd *date.Date
			scanSrc = pd
		case 14:
			// the other things a driver may hand over: a float, a bool, integers at the edges
			fs := [...]float64{-1, 0.5, 1e30, 3, 1994, math.NaN(), math.Inf(1), 4e3, 0, -0.0, 1e-9, 18446744073709551616}
			scanSrc = fs[t.Choose(len(fs))]
		case 15:
			scanSrc = t.Bool(1, 2)
		case 16:
			is := [...]int64{-1, 0, 1, 3999, 4000, 1 << 31, math.MaxInt64, math.MinInt64}
			scanSrc = is[t.Choose(len(is))]
		case 13:
			// what a database hands over for "infinity", a BC date or a corrupt row: years at
			// and beyond the edges of what the text form can express, in UTC and in a zone
			// that moves the instant across the year boundary
			years := [...]int{0, -1, -4712, 1, 9999, 10000, 10001, 32767, 32768, 294276, 292277026596}
			y := years[t.Choose(len(years))]
			loc := time.UTC
			if t.Bool(1, 3) {
				loc = scanZone
			}
			if t.Bool(1, 2) {
				scanSrc = time.Date(y, time.December, 31, 23, 59, 59, 0, loc)
			} else {
				scanSrc = time.Date(y, time.January, 1, 0, 0, 0, 0, loc)
			}
		}
	}
	garbage := t.Word() | 1
	if stub != 0 {
		h.installStub(ty, stub, garbage)
		h.res.Faults.Inc(fmt.Sprintf("parser_seam_stub_%d", stub))
	}
	var err error
	panicked := false
	func() {
		defer func() {
			if r := recover(); r != nil {
				panicked = true
				h.res.Probes.Inc("panic_outside_scope")
				h.logf("panic recovered (C18's subject, not C17's): %v", r)
			}
		}()
		switch entry {
		case EUnmarshalText:
			switch ty {
			case TDate:
				err = h.d.UnmarshalText(data)
			case TRoman:
				err = h.n.UnmarshalText(data)
			case TSem:
				err = h.v.UnmarshalText(data)
			case TSize:
				err = h.s.UnmarshalText(data)
			case TUU:
				err = h.id.UnmarshalText(data)
			}
		case EUnmarshalJSON:
			err = h.s.UnmarshalJSON(data)
		case EUnmarshalBinary:
			err = h.ptr(ty).(encoding.BinaryUnmarshaler).UnmarshalBinary(data)
		case EScan:
			err = h.ptr(ty).(sqlScanner).Scan(scanSrc)
		case EJSONStd:
			switch ty {
			case TDate:
				err = json.Unmarshal(data, &h.d)
			case TRoman:
				err = json.Unmarshal(data, &h.n)
			case TSem:
				err = json.Unmarshal(data, &h.v)
			case TSize:
				err = json.Unmarshal(data, &h.s)
			case TUU:
				err = json.Unmarshal(data, &h.id)
			}
		}
	}()
	if stub != 0 {
		restoreParsers()
	}
	errText := ""
	if err != nil {
		errText = err.Error()
	}
	failed := err != nil || panicked
	name := typeNames[ty] + "." + entryNames[entry]
	h.hash.Add(uint64(ty)<<24 | uint64(entry)<<16 | uint64(fault)<<8 | uint64(stub)<<4 | uint64(scanKind))
	h.hash.AddString(errText)
	hashVal(&h.hash, h.cur(ty))
	h.class.Add(uint64(ty)<<24 | uint64(entry)<<16 | uint64(fault)<<8 | uint64(stub)<<4 | uint64(h.prov[ty])<<2 | b2u(failed)<<1 | b2u(panicked))
	h.logf("call %s record=%q (%s) fault=%s stub=%d input=%q scan=%d -> err=%q receiver=%s", name, rec.Bytes, rec.Desc, faultNames[fault], stub, clip(preIn), scanKind, errText, showVal(h.cur(ty)))
	h.res.Extra.Inc("calls")

	if h.repeat == nil && stub == 0 && !panicked && (entry == EUnmarshalText || entry == EUnmarshalJSON || entry == EUnmarshalBinary || entry == EJSONStd) && len(h.seenM) < 24 {
		h.seenM = append(h.seenM, methodCall{ty, entry, append([]byte(nil), preIn...)})
	}
	// H for the method-level entries: the same content under the same configuration gives the
	// same outcome (error text, or decoded value) every time in a history
	if stub == 0 && !panicked && (entry == EUnmarshalText || entry == EUnmarshalJSON || entry == EUnmarshalBinary) {
		key := "m/" + name + "/" + configKey() + "\x00" + string(preIn)
		now := memoEntry{errText: errText, step: h.step}
		if err == nil {
			now.val = deep(h.cur(ty))
		}
		if m, ok := h.memo[key]; ok {
			h.res.Probes.Inc("same_content_unmarshaled_again")
			if m.errText != now.errText || m.val != now.val {
				if h.violate("H-history-dependence", name, fmt.Sprintf("%s on %q gave (%s, %q) at op %d of this history and gives (%s, %q) now, under the same configuration", name, clip(preIn), showVal(m.val), m.errText, m.step, showVal(now.val), now.errText)) {
					return
				}
			}
		} else if len(h.memo) < 256 {
			h.memo[key] = now
		}
	}
	// D for Scan: a valid text of the type handed over as string and as []byte (drivers differ
	// in that) must both be accepted with the same value or both be refused. The texts of the
	// two refusals are not compared: the library's own message names the dynamic type of the
	// source. Content that is no valid text is only judged if both source types are accepted.
	if entry == EScan && (scanKind == 4 || scanKind == 5) && !panicked {
		var twin interface{} = append([]byte(nil), preIn...)
		if scanKind == 5 {
			twin = string(preIn)
		}
		p2 := reflect.New(reflect.TypeOf(pre)) // a second receiver holding the pre-call value
		p2.Elem().Set(reflect.ValueOf(pre))
		var err2 error
		twinPanicked := false
		func() {
			defer func() {
				if recover() != nil {
					twinPanicked = true
				}
			}()
			err2 = p2.Interface().(sqlScanner).Scan(twin)
		}()
		d2 := p2.Elem().Interface()
		h.res.Probes.Inc("scan_text_both_types")
		disagree := !twinPanicked && ((err == nil) != (err2 == nil) || (err == nil && d2 != h.cur(ty)))
		bytesErr := err
		if scanKind == 4 {
			bytesErr = err2
		}
		if disagree && (err == nil) != (err2 == nil) && bytesErr == nil && !textAccepted(ty, string(preIn)) {
			// the []byte source was accepted although the content is no valid text of the type: it
			// is read as something other than text (16 raw bytes of a BINARY(16) column are a UUID
			// for many drivers). Not a disagreement about parsing a text: not judged. The other
			// way round (the string accepted, the same bytes refused) has no such reading.
			disagree = false
			h.res.Probes.Inc("scan_non_text_interpretation_not_judged")
		}
		if disagree {
			e2 := ""
			if err2 != nil {
				e2 = err2.Error()
			}
			if h.violate("D-string-bytes-disagree", name, fmt.Sprintf("%s on the text %q: as %T it gives (%s, %q), as %T it gives (%s, %q)", name, clip(preIn), scanSrc, showVal(h.cur(ty)), errText, twin, showVal(d2), e2)) {
				return
			}
		}
	}
	// B: input immutability
	if !bytes.Equal(data, preIn) {
		if h.violate("B-input-modified", name, fmt.Sprintf("%s modified the bytes it was given: before %q after %q", name, clip(preIn), clip(data))) {
			return
		}
	}
	if !buf.canaryIntact() {
		h.res.Probes.Inc("canary_damaged_outside_len")
	}
	if h.checkOldBuffers(name) {
		return
	}
	// A: failure atomicity
	if failed {
		h.res.Extra.Inc("failing_calls")
		if h.cur(ty) != pre {
			key := name
			if stub != 0 {
				key += "/stub"
			}
			if h.violate("A-failure-atomicity", key, fmt.Sprintf("%s returned error %q (fault %s, stub %d) but changed the receiver from %s to %s", name, errText, faultNames[fault], stub, showVal(pre), showVal(h.cur(ty)))) {
				return
			}
			h.model[ty] = deep(h.cur(ty))
		}
		if h.prov[ty] == 1 && pre != zeroOf(ty) {
			h.res.NonTrivial = true
			h.res.Probes.Inc("fail_after_success")
			h.res.Probes.Inc("fail_after_success_" + typeNames[ty])
			if entry == EScan {
				h.res.Probes.Inc("scan_fail_after_success")
			}
			if entry == EUnmarshalBinary {
				h.res.Probes.Inc("binary_fail_after_success")
			}
		}
		if stub == 1 {
			h.res.Probes.Inc("stub_error_with_data")
		}
		if strings.Contains(errText, "too long") {
			h.res.Probes.Inc("too_long_rejected")
		}
		h.failedYet[ty] = true
		if !h.stop && h.t.Bool(1, 2) {
			h.recheck()
		}
	} else {
		h.res.Extra.Inc("successful_calls")
		if h.failedYet[ty] {
			h.res.Probes.Inc("success_after_fail")
		}
		if stub == 1 {
			// the seam reported an error and the method said success: whatever it stored
			// is the new state by the letter of the property, but note it
			h.res.Probes.Inc("stub_error_swallowed")
		}
		h.model[ty] = deep(h.cur(ty))
		h.prov[ty] = 1
		if h.clean && fault == FIntact {
			h.res.Extra.Inc("clean_successes")
		}
	}
	if h.clean && failed {
		h.res.Extra.Inc("clean_mode_failures")
		h.res.Extra.Inc("clean_mode_failure_" + name + "_" + rec.Desc)
	}
}

func zeroOf(ty int) interface{} {
	switch ty {
	case TDate:
		return date.Date{}
	case TRoman:
		return roman.Number(0)
	case TSem:
		return sem.Ver{}
	case TSize:
		return size.Size(0)
	}
	return uu.ID{}
}

func b2u(b bool) uint64 {
	if b {
		return 1
	}
	return 0
}

func clip(b []byte) []byte {
	if len(b) > 80 {
		return append(append([]byte(nil), b[:60]...), []byte(fmt.Sprintf("...(%d bytes)", len(b)))...)
	}
	return b
}

func restoreParsers() {
	date.Parser, roman.Parser, sem.Parser, size.Parser, uu.Parser = defDateParser, defRomanParser, defSemParser, defSizeParser, defUUParser
}

// installStub replaces the package's Parser for one call: kind 1 returns a garbage value
// together with an error, kind 2 returns a value and nil, kind 3 returns nil and a value
// outside what the default parser can produce (a lenient custom parser: the seam is public).
func (h *hist) installStub(ty, kind int, g uint64) {
	var e error
	if kind == 1 {
		e = errInjected
	}
	if kind == 4 {
		// a custom parser with a bug of its own: whatever the method does about the panic (let
		// it pass, turn it into an error), the receiver is not its to change
		boom := func() { panic("vsim: injected panic in the Parser seam") }
		switch ty {
		case TDate:
			date.Parser = func([]byte, date.Rule) (date.Date, error) { boom(); return date.Date{}, nil }
		case TRoman:
			roman.Parser = func([]byte, roman.Rule) (roman.Number, error) { boom(); return 0, nil }
		case TSem:
			sem.Parser = func([]byte, sem.Rule) (sem.Ver, error) { boom(); return sem.Ver{}, nil }
		case TSize:
			size.Parser = func([]byte, size.Rule) (size.Size, error) { boom(); return 0, nil }
		case TUU:
			uu.Parser = func([]byte, uu.Rule) (uu.ID, error) { boom(); return uu.ID{}, nil }
		}
		return
	}
	if kind == 3 {
		switch ty {
		case TDate:
			date.Parser = func([]byte, date.Rule) (date.Date, error) { return date.Date{}, nil }
		case TRoman:
			roman.Parser = func([]byte, roman.Rule) (roman.Number, error) { return roman.Number(g | 1<<40), nil }
		case TSem:
			v := sem.Ver{Major: g, Minor: g >> 7, Patch: g >> 13, PreRelease: "not valid!", Build: "sp ace"}
			if g&2 != 0 {
				v.PreRelease = "01" // numeric identifier with a leading zero
			}
			if g&4 != 0 {
				v.PreRelease, v.Build = "", "caf\u00e9"
			}
			sem.Parser = func([]byte, sem.Rule) (sem.Ver, error) { return v, nil }
		case TSize:
			size.Parser = func([]byte, size.Rule) (size.Size, error) { return size.Size(^uint64(0)), nil }
		case TUU:
			uu.Parser = func([]byte, uu.Rule) (uu.ID, error) { return uu.ID{}, nil }
		}
		return
	}
	switch ty {
	case TDate:
		v := date.New(1+int(g%9000), date.Month(1+g%12), 1+int(g%28))
		date.Parser = func([]byte, date.Rule) (date.Date, error) { return v, e }
	case TRoman:
		roman.Parser = func([]byte, roman.Rule) (roman.Number, error) { return roman.Number(g), e }
	case TSem:
		v := sem.Ver{Major: g, Minor: g >> 7, Patch: g >> 13, PreRelease: "stub", Build: "garbage"}
		sem.Parser = func([]byte, sem.Rule) (sem.Ver, error) { return v, e }
	case TSize:
		size.Parser = func([]byte, size.Rule) (size.Size, error) { return size.Size(g), e }
	case TUU:
		uu.Parser = func([]byte, uu.Rule) (uu.ID, error) { return uu.ID{Higher: g, Lower: ^g}, e }
	}
}

// opParse: one function-level parser in the four instantiations on the same content.
func (h *hist) opParse() {
	t := h.t
	pe := parserEntries[t.Choose(len(parserEntries))]
	rule := pe.rules[t.Choose(len(pe.rules))]
	rec := h.pickRecord(pe.ty)
	fault := h.pickFault()
	content := h.readRecord(pe.ty, fault, rec)
	h.parseContent(pe, rule, content, fault)
}

func (h *hist) parseContent(pe parserEntry, rule int, content []byte, fault int) {
	h.memoKey = fmt.Sprintf("%s/%d/%s", pe.name, rule, configKey())
	defer func() { h.memoKey = "" }()
	if len(h.seenP) < 24 {
		for k := range parserEntries {
			if parserEntries[k].name == pe.name {
				h.seenP = append(h.seenP, sentinel{k, rule, append([]byte(nil), content...), configKey()})
				break
			}
		}
	}
	in, bb, nbb := h.makeInputs(content)
	preIn := append([]byte(nil), content...)
	out := pe.call(in, rule)
	h.res.Extra.Add("parser_calls", 4)
	h.res.Probes.Add("named_type_calls", 2)
	if out[0].err != nil && !out[0].panicked {
		if !h.stable(pe, rule, in, preIn, out) {
			return
		}
	}
	h.hash.AddString(pe.name)
	h.hash.Add(uint64(rule)<<8 | uint64(fault))
	h.afterParsers(pe.name, fmt.Sprintf("rule=%d", rule), out, preIn, in, []*buffer{bb, nbb}, fault)
	h.logf("parse %s rule=%d fault=%s input=%q -> val=%s err=%q", pe.name, rule, faultNames[fault], clip(preIn), showVal(out[0].val), out[0].errText)
}

func (h *hist) makeInputs(content []byte) (*inputs, *buffer, *buffer) {
	bb := h.lease(content)
	nbb := h.lease(content)
	return &inputs{s: string(content), b: bb.data(), ns: NS(content), nb: NB(nbb.data())}, bb, nbb
}

var instNames = [4]string{"string", "[]byte", "named-string", "named-bytes"}

// checkOldBuffers is B for the buffers of earlier calls: the caller still owns them, and a
// library that kept a reference to one (in a pool, a cache, a scratch variable) and writes
// through it during a later call modifies bytes it was given. It returns true if the history
// is to stop.
func (h *hist) checkOldBuffers(name string) bool {
	for _, b := range h.pool {
		d := b.arena[canaryLen : canaryLen+b.n]
		if bytes.Equal(d, b.want) {
			continue
		}
		h.res.Probes.Inc("earlier_buffer_modified")
		stop := h.violate("B-input-modified", name+"/earlier-buffer", fmt.Sprintf("during %s a buffer that had been handed to an earlier call changed from %q to %q: the library kept a reference to its caller's bytes and wrote through it", name, clip(b.want), clip(d)))
		b.want = append(b.want[:0], d...)
		if stop {
			return true
		}
	}
	return false
}

// afterParsers applies B and D to the four outcomes and puts the byte-backed results into the bag.
func (h *hist) afterParsers(name, extra string, out [4]pres, preIn []byte, in *inputs, bufs []*buffer, fault int) {
	// B on all four inputs (strings too: a parser that writes through unsafe is no better)
	if !bytes.Equal(in.b, preIn) || !bytes.Equal([]byte(in.nb), preIn) || in.s != string(preIn) || string(in.ns) != string(preIn) {
		if h.violate("B-input-modified", name, fmt.Sprintf("%s %s modified its input: before %q, after []byte=%q named-bytes=%q string=%q", name, extra, clip(preIn), clip(in.b), clip([]byte(in.nb)), clip([]byte(in.s)))) {
			return
		}
	}
	for _, b := range bufs {
		if !b.canaryIntact() {
			h.res.Probes.Inc("canary_damaged_outside_len")
		}
	}
	if h.checkOldBuffers(name) {
		return
	}
	anyPanic := false
	for i := range out {
		if out[i].panicked {
			anyPanic = true
		}
	}
	if anyPanic {
		h.res.Probes.Inc("panic_outside_scope")
		// D still applies to panics: all four must behave the same way
		for i := 1; i < 4; i++ {
			if out[i].panicked != out[0].panicked {
				h.violate("D-string-bytes-disagree", name, fmt.Sprintf("%s %s on %q: %s panicked=%v but %s panicked=%v", name, extra, clip(preIn), instNames[0], out[0].panicked, instNames[i], out[i].panicked))
				return
			}
		}
		return
	}
	for i := 1; i < 4; i++ {
		if (out[i].err == nil) != (out[0].err == nil) || out[i].errText != out[0].errText {
			if h.violate("D-string-bytes-disagree", name, fmt.Sprintf("%s %s on %q: %s gives error %q but %s gives error %q", name, extra, clip(preIn), instNames[0], out[0].errText, instNames[i], out[i].errText)) {
				return
			}
		}
		if out[i].val != out[0].val {
			if h.violate("D-string-bytes-disagree", name, fmt.Sprintf("%s %s on %q: %s gives %s but %s gives %s", name, extra, clip(preIn), instNames[0], showVal(out[0].val), instNames[i], showVal(out[i].val))) {
				return
			}
		}
	}
	// H: the outcome depends only on (entry, rule, configuration, content) - not on earlier
	// calls, and not on what the caller did to earlier buffers
	if h.memoKey != "" {
		key := h.memoKey + "\x00" + string(preIn)
		if m, ok := h.memo[key]; ok {
			h.res.Probes.Inc("same_content_parsed_again")
			if m.val != out[0].val || m.errText != out[0].errText {
				if h.violate("H-history-dependence", name, fmt.Sprintf("%s %s on %q gave (%s, %q) at op %d of this history and gives (%s, %q) now, under the same configuration: the result depends on earlier calls or on what the caller did to earlier buffers", name, extra, clip(preIn), showVal(m.val), m.errText, m.step, showVal(out[0].val), out[0].errText)) {
					return
				}
			}
		} else if len(h.memo) < 256 {
			h.memo[key] = memoEntry{deep(out[0].val), out[0].errText, h.step}
		}
	}
	h.hash.AddString(out[0].errText)
	hashVal(&h.hash, out[0].val)
	if out[0].err != nil {
		h.res.Extra.Inc("parser_errors")
		if strings.Contains(out[0].errText, "too long") {
			h.res.Probes.Inc("too_long_rejected")
		}
	} else {
		h.res.Extra.Inc("parser_successes")
	}
	// values decoded from byte buffers go into the bag: they must survive scribbling
	for _, i := range [2]int{1, 3} {
		if out[i].err == nil {
			it := bagItem{val: out[i].val, copy: deep(out[i].val), from: name + "[" + instNames[i] + "]"}
			if len(h.bag) < 16 {
				h.bag = append(h.bag, it)
			} else {
				h.bag[h.t.Choose(len(h.bag))] = it
			}
		}
	}
}

// opPair: a two-input sem function in four instantiation pairs.
func (h *hist) opPair() {
	t := h.t
	pe := pairEntries[t.Choose(len(pairEntries))]
	ra, rb := h.pickRecord(TSem), h.pickRecord(TSem)
	fa, fb := h.pickFault(), h.pickFault()
	ca, cb := h.readRecord(TSem, fa, ra), h.readRecord(TSem, fb, rb)
	if t.Bool(1, 3) {
		// related arguments: the same text, or the same text with the tag prefix toggled
		cb = append([]byte(nil), ca...)
		switch t.Choose(3) {
		case 1:
			if len(cb) > 0 && cb[0] == 'v' {
				cb = cb[1:]
			} else {
				cb = append([]byte{'v'}, cb...)
			}
		case 2:
			if len(ca) > 0 && ca[0] != 'v' {
				ca = append([]byte{'v'}, ca...)
			}
		}
		h.res.Probes.Inc("pair_related_arguments")
	}
	h.memoKey = fmt.Sprintf("%s/%s/%q", pe.name, configKey(), cb)
	defer func() { h.memoKey = "" }()
	ia, ba1, ba2 := h.makeInputs(ca)
	ib, bb1, bb2 := h.makeInputs(cb)
	preA, preB := append([]byte(nil), ca...), append([]byte(nil), cb...)
	out := pe.call(ia, ib)
	h.res.Extra.Add("parser_calls", 4)
	h.hash.AddString(pe.name)
	h.hash.Add(uint64(fa)<<8 | uint64(fb))
	// B for the second input, then the common checks on the first
	if !bytes.Equal(ib.b, preB) || !bytes.Equal([]byte(ib.nb), preB) || ib.s != string(preB) {
		if h.violate("B-input-modified", pe.name, fmt.Sprintf("%s modified its second input: before %q after %q / %q", pe.name, clip(preB), clip(ib.b), clip([]byte(ib.nb)))) {
			return
		}
	}
	h.afterParsers(pe.name, fmt.Sprintf("second=%q", clip(preB)), out, preA, ia, []*buffer{ba1, ba2, bb1, bb2}, fa)
	h.logf("pair %s a=%q b=%q -> val=%s err=%q", pe.name, clip(preA), clip(preB), showVal(out[0].val), out[0].errText)
}

// stable: the same failing call repeated must give the same text (an error message assembled
// by ranging over a map does not). One repetition of all four instantiations is a cheap way to
// name the cause; it cannot make such a run replay exactly (Go's map order has no seam), the
// worker and the replay command handle that case by retrying (core: "flaky").
func (h *hist) stable(pe parserEntry, rule int, in *inputs, preIn []byte, out [4]pres) bool {
	for k := 0; k < 1; k++ {
		again := pe.call(in, rule)
		h.res.Extra.Add("parser_calls", 4)
		for i := 0; i < 4; i++ {
			if again[i].panicked || out[i].panicked {
				continue
			}
			if again[i].errText != out[i].errText || again[i].val != out[i].val {
				h.violate("D-string-bytes-disagree", pe.name+"/unstable", fmt.Sprintf("%s rule=%d on %q (%s): the same call repeated gives %q and then %q - no two instantiations can agree on a message that is not a function of the input", pe.name, rule, clip(preIn), instNames[i], out[i].errText, again[i].errText))
				return false
			}
		}
	}
	h.res.Probes.Inc("error_text_stable_under_repetition")
	return true
}

// recheck repeats an earlier function-level parse of this history (same entry, rule, content,
// and the same intended configuration): whatever happened in between must not show (H).
func (h *hist) recheck() {
	if len(h.seenM) > 0 && h.repeat == nil && h.t.Bool(1, 2) {
		mc := h.seenM[h.t.Choose(len(h.seenM))]
		h.repeat = &mc
		h.res.Probes.Inc("repeat_earlier_method_call")
		h.opCall()
		h.repeat = nil
		return
	}
	var cands []int
	cur := configKey()
	for i, sn := range h.seenP {
		if sn.cfg == cur {
			cands = append(cands, i)
		}
	}
	if len(cands) == 0 {
		return
	}
	sn := h.seenP[cands[h.t.Choose(len(cands))]]
	h.res.Probes.Inc("recheck_earlier_parse")
	h.parseContent(parserEntries[sn.pe], sn.rule, append([]byte(nil), sn.content...), FIntact)
}

// opScribble: the caller reuses one of its buffers.
func (h *hist) opScribble() {
	t := h.t
	if len(h.pool) == 0 {
		return
	}
	k := 1 + t.Choose(3)
	var reparse []Record
	for i := 0; i < k; i++ {
		b := h.pool[t.Choose(len(h.pool))]
		d := b.arena[canaryLen : canaryLen+b.n]
		switch t.Choose(3) {
		case 0:
			for j := range d {
				d[j] = 0
			}
		case 1:
			w := t.Word()
			for j := range d {
				w = w*6364136223846793005 + 1442695040888963407
				d[j] = byte(w >> 56)
			}
		case 2:
			// another record: preferably one of the same length that this history has
			// already seen (the caller reading the next record into its buffer)
			r := genRecord(t, t.Choose(NumTypes)).Bytes
			var same []int
			for k, sr := range h.store {
				if len(sr.Bytes) == len(d) && len(d) > 0 {
					same = append(same, k)
				}
			}
			if len(same) > 0 {
				sr := h.store[same[t.Choose(len(same))]]
				r = sr.Bytes
				reparse = append(reparse, sr)
			}
			for j := range d {
				if len(r) > 0 {
					d[j] = r[j%len(r)]
				}
			}
		}
		b.want = append(b.want[:0], d...)
	}
	h.res.Faults.Add("buffer_scribbled", int64(k))
	h.res.Probes.Inc("scribble_then_check")
	h.logf("scribble %d buffers", k)
	// C: receivers (checked by checkModels right after) and bag values
	for i := range h.bag {
		if h.bag[i].val != h.bag[i].copy {
			if h.violate("C-aliasing", h.bag[i].from, fmt.Sprintf("value returned by %s changed from %s to %s when the caller overwrote its input buffer", h.bag[i].from, showVal(h.bag[i].copy), showVal(h.bag[i].val))) {
				return
			}
			h.bag[i].copy = deep(h.bag[i].val)
		}
	}
	h.checkModels("after scribble")
	// an earlier content again, accepted or refused: whatever the library remembers of that call
	// (a cached result, a cached error) must not point into the buffer that has just been reused
	if !h.stop && t.Bool(1, 2) {
		h.recheck()
	}
	// the buffer now holds another record: parse that record's content again (a library that
	// kept a reference to the old buffer would answer from it)
	for _, sr := range reparse {
		if h.stop {
			return
		}
		var cands []parserEntry
		for _, pe := range parserEntries {
			if pe.ty == sr.Type {
				cands = append(cands, pe)
			}
		}
		pe := cands[t.Choose(len(cands))]
		h.res.Probes.Inc("reparse_after_scribble")
		h.parseContent(pe, pe.rules[0], append([]byte(nil), sr.Bytes...), FIntact)
	}
}

// opSetLimit: the package's input limit changes mid-history.
func (h *hist) opSetLimit() {
	t := h.t
	ty := t.Choose(NumTypes)
	v := defLimits[ty]
	switch t.Choose(5) {
	case 0:
		v = 0
	case 1:
		v = 1
	case 2:
		v = 5 + t.Choose(16)
	case 3:
		v = 36 + t.Choose(10)
	}
	if ty == TSize && t.Bool(1, 3) {
		// size has two more switches that Unmarshal* read on every call
		if t.Bool(1, 2) {
			rules := [...]size.Rule{defSizeRule, 0, size.RuleDisableUnit, size.RuleEnableJSONStringForm, size.RuleEnableJSONObjectForm,
				size.RuleEnableJSONStringForm | size.RuleEnableJSONObjectForm | size.RuleDisallowUnknownKeys, size.RuleEnableJSONObjectForm | size.RuleDisableUnit}
			size.DefaultRule = rules[t.Choose(len(rules))]
			cfg.rule = size.DefaultRule
			h.hash.Add(0x51<<32 | uint64(size.DefaultRule))
			h.res.Faults.Inc("size_default_rule_changed")
			h.logf("set size.DefaultRule = %d", int(size.DefaultRule))
		} else {
			size.MaxObjectKeys = [...]int{defMaxKeys, 0, 1, 2, 3}[t.Choose(5)]
			cfg.maxKeys = size.MaxObjectKeys
			h.hash.Add(0x52<<32 | uint64(size.MaxObjectKeys))
			h.res.Faults.Inc("size_max_object_keys_changed")
			h.logf("set size.MaxObjectKeys = %d", size.MaxObjectKeys)
		}
		return
	}
	setLimit(ty, v)
	cfg.limits[ty] = v
	h.hash.Add(uint64(ty)<<32 | uint64(uint32(v)))
	h.res.Faults.Inc("limit_changed")
	h.logf("set %s.MaxInputLength = %d", typeNames[ty], v)
	// the same content again under the new limit: whatever a parser remembers of an earlier
	// rejection or acceptance (an error object, a verdict) was made under the old one
	if t.Bool(1, 2) {
		var cands []int
		for i, sn := range h.seenP {
			if parserEntries[sn.pe].ty == ty {
				cands = append(cands, i)
			}
		}
		if len(cands) > 0 && !h.stop {
			sn := h.seenP[cands[t.Choose(len(cands))]]
			h.res.Probes.Inc("reparse_after_limit_change")
			h.parseContent(parserEntries[sn.pe], sn.rule, append([]byte(nil), sn.content...), FIntact)
		}
	}
}
