// Package c17 simulates call histories on one receiver per value type: records are written
// by the real marshalers into a simulated store, read back through a fault-injecting read
// path and a reusable buffer pool, and decoded by the real unmarshalers; a reference model
// tracks what every receiver must hold.
package c17

import (
	"bytes"
	"fmt"
	"unicode/utf8"

	"go.lstv.dev/util/date"
	"go.lstv.dev/util/internal/vsim/core"
	"go.lstv.dev/util/roman"
	"go.lstv.dev/util/sem"
	"go.lstv.dev/util/size"
	"go.lstv.dev/util/uu"
)

// Type indexes.
const (
	TDate = iota
	TRoman
	TSem
	TSize
	TUU
	NumTypes
)

var typeNames = [...]string{"date", "roman", "sem", "size", "uu"}

// record kinds written by the store (the real marshalers define what "valid" means)
const (
	RText   = iota // canonical text form
	RAlt           // alternative text form (basic date, lower/long roman, tag, size w/o unit, URN / upper case)
	RBinary        // date binary
	RJSON          // size JSON forms
)

var preReleases = [...]string{"", "alpha", "alpha.1", "0.3.7", "x.7.z.92", "rc-1", "beta.11", "a-b.c-d", "1", "-", "dev.07fa21c", "0a", "00x.1", "0-0", "rc.0", "9.09a"}
var builds = [...]string{"", "001", "20130313144700", "exp.sha.5114f85", "21AF26D3--117B344092BD", "b"}
var bigNums = [...]uint64{0, 1, 2, 9, 10, 11, 99, 1000, 65535, 4294967296, 9223372036854775807, 18446744073709551615}

func genDate(t *core.Tape) date.Date {
	y := 1 + t.Choose(9999)
	switch t.Choose(6) {
	case 1:
		y = 2000 + t.Choose(30)
	case 2:
		y = 9999
	}
	m := 1 + t.Choose(12)
	d := 1 + t.Choose(28)
	if t.Bool(1, 6) {
		// month ends / leap days, normalised by the real constructor
		d = 28 + t.Choose(4)
		probe := date.New(y, date.Month(m), d)
		if probe.Month() != date.Month(m) {
			d = 28
		}
	}
	return date.New(y, date.Month(m), d)
}

func genRoman(t *core.Tape) roman.Number {
	switch t.Choose(5) {
	case 0:
		return roman.Number(1 + t.Choose(3999))
	case 1:
		return roman.Number(t.Choose(40))
	case 2:
		return roman.Number(4000 + t.Choose(396000)) // up to 400 M: longer than any default input limit
	case 3:
		return roman.Number([...]int{4, 9, 14, 40, 49, 90, 99, 400, 444, 499, 900, 999, 1994, 3888, 3999}[t.Choose(15)])
	}
	return roman.Number(1 + t.Choose(3999))
}

func genNum(t *core.Tape) uint64 {
	if t.Bool(1, 3) {
		return bigNums[t.Choose(len(bigNums))]
	}
	return uint64(t.Choose(50))
}

func genSem(t *core.Tape) sem.Ver {
	return sem.Ver{Major: genNum(t), Minor: genNum(t), Patch: genNum(t),
		PreRelease: preReleases[t.Choose(len(preReleases))], Build: builds[t.Choose(len(builds))]}
}

func genSize(t *core.Tape) size.Size {
	switch t.Choose(5) {
	case 0:
		return size.Size(t.Choose(5000))
	case 1:
		return size.Size(uint64(1+t.Choose(1023)) << uint(10*t.Choose(6)))
	case 2:
		return size.Size(bigNums[t.Choose(len(bigNums))])
	case 3:
		return size.Size(uint64(1+t.Choose(999)) * 1000 * 1000)
	}
	return size.Size(t.Word() >> uint(t.Choose(64)))
}

func genUU(t *core.Tape) uu.ID {
	switch t.Choose(4) {
	case 0:
		return uu.ID{Higher: t.Word(), Lower: t.Word()}
	case 1:
		return uu.ID{Higher: uint64(t.Choose(256)), Lower: uint64(t.Choose(256))}
	case 2:
		return uu.ID{Higher: ^uint64(0), Lower: ^uint64(0) - uint64(t.Choose(16))}
	}
	return uu.ID{Higher: t.Word()&^0xf000 | 0x4000, Lower: t.Word()>>2 | 0x8000000000000000}
}

func upperHex(b []byte) []byte {
	out := append([]byte(nil), b...)
	for i, c := range out {
		if c >= 'a' && c <= 'f' {
			out[i] = c - 32
		}
	}
	return out
}

// Record is one stored encoding produced by the real marshalers.
type Record struct {
	Type  int
	Kind  int
	Bytes []byte
	Desc  string
}

// genRecord asks the real marshalers of type ty for an encoding of a tape-chosen value.
// Nothing about the formats is mirrored here: "valid" is whatever the library writes.
func genRecord(t *core.Tape, ty int) Record {
	switch ty {
	case TDate:
		d := genDate(t)
		switch t.Choose(4) {
		case 0, 1:
			b, _ := d.MarshalText()
			return Record{ty, RText, b, "date.MarshalText"}
		case 2:
			b, _ := date.DefaultFormatter(nil, d, date.FormatBasic)
			return Record{ty, RAlt, b, "date basic"}
		default:
			b, _ := d.MarshalBinary()
			return Record{ty, RBinary, b, "date.MarshalBinary"}
		}
	case TRoman:
		n := genRoman(t)
		f := roman.Format(0)
		kind := RText
		if t.Bool(1, 2) {
			f = roman.Format(t.Choose(128))
			kind = RAlt
		}
		b, _ := roman.DefaultFormatter(nil, n, f)
		return Record{ty, kind, b, fmt.Sprintf("roman format %d", int(f))}
	case TSem:
		v := genSem(t)
		if t.Bool(1, 3) {
			return Record{ty, RAlt, []byte(v.StringTag()), "sem.StringTag"}
		}
		return Record{ty, RText, []byte(v.String()), "sem.String"}
	case TSize:
		s := genSize(t)
		switch t.Choose(6) {
		case 0, 1:
			b, _ := size.DefaultFormatter(nil, s, 0)
			return Record{ty, RText, b, "size text"}
		case 2:
			return Record{ty, RAlt, []byte(s.BytesString()), "size bytes"}
		case 3:
			b, _ := size.DefaultFormatter(nil, s, size.FormatPretty)
			return Record{ty, RAlt, b, "size pretty"}
		case 4:
			b, _ := size.DefaultFormatter(nil, s, 0)
			q := append([]byte{'"'}, b...)
			return Record{ty, RJSON, append(q, '"'), "size json string"}
		default:
			// the object form as the library writes it, and shapes a peer could write: unit
			// first, other keys around, upper-case keys (keys are case-insensitive)
			v, u := s.Shorten()
			switch t.Choose(11) {
			case 5:
				// what a careless peer writes: a key twice, a value that is no size at all, a number
				// that does not fit (negative, fractional, exponent) with and without a unit
				return Record{ty, RJSON, []byte(fmt.Sprintf(`{"value":%d,"unit":"%s","value":%d}`, v, u, v+1)), "size json object value twice"}
			case 6:
				return Record{ty, RJSON, []byte(fmt.Sprintf(`{"unit":"%s","value":%d,"UNIT":"B"}`, u, v)), "size json object unit twice"}
			case 7:
				return Record{ty, RJSON, []byte([...]string{"true", "false", "null", "[1]", `[{"value":1}]`}[t.Choose(5)]), "size json other token"}
			case 8:
				return Record{ty, RJSON, []byte([...]string{"-5", "1.5", "1e3", "1E400", "-0", "0.0", "18446744073709551616"}[t.Choose(7)]), "size json odd number"}
			case 9:
				return Record{ty, RJSON, []byte(fmt.Sprintf(`{"value":%s,"unit":"%s"}`, [...]string{"-5", "1.5", "0.5", "1e3", "1.0000001", "18446744073709551616"}[t.Choose(6)], u)), "size json object odd number"}
			case 10:
				return Record{ty, RJSON, []byte(fmt.Sprintf(`{"value":%s}`, [...]string{"-1", "2.5", "7", `"7"`, "null", "{}"}[t.Choose(6)])), "size json object without unit"}
			case 1:
				return Record{ty, RJSON, []byte(fmt.Sprintf(`{"unit":"%s","value":%d}`, u, v)), "size json object unit first"}
			case 2:
				return Record{ty, RJSON, []byte(fmt.Sprintf(`{"note":{"a":[1,2]},"value":%d,"x":null,"unit":"%s"}`, v, u)), "size json object extra keys"}
			case 3:
				return Record{ty, RJSON, []byte(fmt.Sprintf(`{"VALUE":%d,"Unit":"%s"}`, v, u)), "size json object upper keys"}
			}
			b, _ := s.MarshalJSON()
			return Record{ty, RJSON, b, "size.MarshalJSON"}
		}
	default:
		id := genUU(t)
		switch t.Choose(4) {
		case 0, 1:
			return Record{ty, RText, []byte(id.String()), "uu.String"}
		case 2:
			return Record{ty, RAlt, []byte(id.URN()), "uu.URN"}
		default:
			return Record{ty, RAlt, upperHex([]byte(id.String())), "uu upper"}
		}
	}
}

// Read-path fault kinds (0 = intact).
const (
	FIntact = iota
	FTruncate
	FBitflip
	FByteSub
	FInsert
	FDelete
	FDoubled
	FPad
	FEmpty
	FForeign
	FCaseFlip
	FSpace
	FRune
	FSepSwap
	FEdge
	FTranspose
	FRepeatSeg
	FDigitRun
	NumFaults
)

var faultNames = [...]string{"intact", "truncate", "bitflip", "bytesub", "insert", "delete", "doubled", "pad-over-limit", "empty", "foreign", "caseflip", "space", "rune", "separators-swapped", "range-edge-neighbour", "transposed", "segment-repeated", "digit-run-replaced"}

var interesting = [...]byte{'0', '9', '-', '.', '+', 'v', 'a', 'Z', ' ', '_', '/', ':', 0xa0, 0xc3, 0x00, 0xff, '"', '{', '}', ':', ',', 'M', 'i', 'B', 'k', '\n', 'e', 'E', 'x'}

var runes = [...]string{"\u00e9", "\u00fc", "\u2013", "\u20ac", "\U0001F600", "\u00a0", "\u2028", "\ufeff", "\u0130", "\u212a", "\u00b5"}

// applyFault damages a record on its way from the store to the call.
func applyFault(t *core.Tape, f int, rec []byte, foreign func() []byte) []byte {
	b := append([]byte(nil), rec...)
	n := len(b)
	switch f {
	case FIntact:
		return b
	case FTruncate:
		if n == 0 {
			return b
		}
		return b[:t.Choose(n)]
	case FBitflip:
		if n == 0 {
			return b
		}
		b[t.Choose(n)] ^= 1 << uint(t.Choose(8))
		return b
	case FByteSub:
		if n == 0 {
			return b
		}
		i := t.Choose(n)
		if t.Bool(1, 2) {
			b[i] = interesting[t.Choose(len(interesting))]
		} else {
			b[i] = byte(t.Choose(256))
		}
		return b
	case FInsert:
		i := t.Choose(n + 1)
		c := interesting[t.Choose(len(interesting))]
		out := append([]byte(nil), b[:i]...)
		out = append(out, c)
		return append(out, b[i:]...)
	case FDelete:
		if n == 0 {
			return b
		}
		i := t.Choose(n)
		return append(b[:i], b[i+1:]...)
	case FDoubled:
		return append(b, rec...)
	case FPad:
		// pushes the record past every package's default input limit
		padLen := 1030 + t.Choose(64)
		c := []byte{' ', '0', 'M', 'a'}[t.Choose(4)]
		for i := 0; i < padLen; i++ {
			b = append(b, c)
		}
		return b
	case FEmpty:
		return b[:0]
	case FForeign:
		return foreign()
	case FCaseFlip:
		for i, c := range b {
			if (c >= 'a' && c <= 'z') || (c >= 'A' && c <= 'Z') {
				if t.Bool(1, 2) {
					b[i] = c ^ 0x20
				}
			}
		}
		return b
	case FRune:
		// a valid multi-byte UTF-8 rune replaces a byte or is inserted (printable non-ASCII,
		// separators, format characters: what %q, strconv.Quote and range loops treat specially)
		r := runes[t.Choose(len(runes))]
		i := t.Choose(n + 1)
		if n > 0 && t.Bool(1, 3) {
			// a code point whose low byte is a byte of the record itself (Ř is U+0158, 0x58 is X):
			// whoever narrows runes to bytes sees the record's own alphabet again
			j := t.Choose(n)
			if c := b[j]; c < 0x80 {
				r = string(rune(0x100*(1+t.Choose(32)) + int(c)))
				if !utf8.ValidString(r) {
					r = string(rune(0x100 + int(c)))
				}
				i = j
			}
		}
		out := append([]byte(nil), b[:i]...)
		out = append(out, r...)
		switch t.Choose(3) {
		case 0: // inserted
		case 1: // replaces one byte
			if i < n {
				i++
			}
		default: // replaces as many bytes as it is long: the record keeps its length
			i += len(r)
			if i > n {
				i = n
			}
		}
		return append(out, b[i:]...)
	case FEdge:
		// one byte becomes the character just outside the class it belongs to ('0'..'9' -> '/' or
		// ':', 'a'..'f' -> '`' or 'g', 'A'..'F' -> '@' or 'G', other letters likewise): what an
		// off-by-one range test, a table one entry short or an arithmetic class test lets through.
		// The first and the last byte are favoured (that is where loads and loops end).
		if n == 0 {
			return b
		}
		i := t.Choose(n)
		switch t.Choose(3) {
		case 0:
			i = n - 1
		case 1:
			i = 0
		}
		lo := t.Bool(1, 2)
		c := b[i]
		switch {
		case c >= '0' && c <= '9':
			c = map[bool]byte{true: '/', false: ':'}[lo]
		case c >= 'a' && c <= 'f':
			c = map[bool]byte{true: '`', false: 'g'}[lo]
		case c >= 'A' && c <= 'F':
			c = map[bool]byte{true: '@', false: 'G'}[lo]
		case c >= 'a' && c <= 'z':
			c = map[bool]byte{true: '`', false: '{'}[lo]
		case c >= 'A' && c <= 'Z':
			c = map[bool]byte{true: '@', false: '['}[lo]
		case lo:
			c--
		default:
			c++
		}
		b[i] = c
		return b
	case FTranspose:
		// two neighbouring bytes change places (a typing slip; keeps the length and the alphabet)
		if n < 2 {
			return b
		}
		i := t.Choose(n - 1)
		b[i], b[i+1] = b[i+1], b[i]
		return b
	case FRepeatSeg:
		// a segment of the record appears twice in a row (1.2.3 -> 1.2.2.3, XIV -> XIXIV)
		if n == 0 {
			return b
		}
		i := t.Choose(n)
		l := 1 + t.Choose(min(n-i, 6))
		out := append([]byte(nil), b[:i+l]...)
		out = append(out, b[i:i+l]...)
		return append(out, b[i+l:]...)
	case FDigitRun:
		// one run of ASCII digits is replaced by a number that is awkward in some way: leading
		// zeros, the edges of the integer types, a sign, another radix or notation, digits from
		// other scripts (unicode.IsDigit is not '0'..'9')
		type run struct{ from, to int }
		var runs []run
		for i := 0; i < n; {
			if b[i] < '0' || b[i] > '9' {
				i++
				continue
			}
			j := i
			for j < n && b[j] >= '0' && b[j] <= '9' {
				j++
			}
			runs = append(runs, run{i, j})
			i = j
		}
		if len(runs) == 0 {
			return b
		}
		r := runs[t.Choose(len(runs))]
		old := string(b[r.from:r.to])
		alts := [...]string{"0" + old, "000" + old, "00000000000000000000" + old, "255", "256", "65535", "65536", "2147483647", "2147483648", "4294967295", "4294967296",
			"9223372036854775807", "9223372036854775808", "18446744073709551615", "18446744073709551616", "99999999999999999999999999", "-" + old, "+" + old, "-0", "0x" + old, old + "e2", old + ".0", "1_000",
			"\u0661\u0662\u0663", "\uff11\uff12", "\u0967", old + "\u00b2", "\u2460"}
		alt := alts[t.Choose(len(alts))]
		out := append([]byte(nil), b[:r.from]...)
		out = append(out, alt...)
		return append(out, b[r.to:]...)
	case FSepSwap:
		// another writer's convention: every occurrence of one punctuation byte of the record
		// becomes another one (2024-02-03 -> 2024/02/03, 1.2.3-rc.1 -> 1_2_3-rc_1, ...)
		var seps []byte
		for _, c := range b {
			if c < 0x80 && !(c >= '0' && c <= '9') && !(c >= 'a' && c <= 'z') && !(c >= 'A' && c <= 'Z') && bytes.IndexByte(seps, c) < 0 {
				seps = append(seps, c)
			}
		}
		if len(seps) == 0 {
			return b
		}
		from := seps[t.Choose(len(seps))]
		to := []byte{'/', '.', '-', ' ', ':', '_', ','}[t.Choose(7)]
		for i, c := range b {
			if c == from {
				b[i] = to
			}
		}
		return b
	case FSpace:
		// a run of one to three blanks (space, tab, NBSP byte) somewhere, often at an end
		i := t.Choose(n + 1)
		switch t.Choose(4) {
		case 0:
			i = n
		case 1:
			i = 0
		}
		out := append([]byte(nil), b[:i]...)
		k := 1 + t.Choose(3)
		for j := 0; j < k; j++ {
			// space, tab, underscore, the lone Latin-1 NBSP byte, and NBSP in UTF-8
			bl := [...]string{" ", " ", " ", "\t", "_", "\xa0", "\u00a0"}[t.Choose(7)]
			out = append(out, bl...)
		}
		return append(out, b[i:]...)
	}
	return b
}

func min(a, b int) int {
	if a < b {
		return a
	}
	return b
}
