package c17

import (
	"fmt"

	"go.lstv.dev/util/date"
	"go.lstv.dev/util/roman"
	"go.lstv.dev/util/sem"
	"go.lstv.dev/util/size"
	"go.lstv.dev/util/uu"
)

// NS and NB are the named string / byte-slice instantiations.
type (
	NS string
	NB []byte
)

// pres is the outcome of one parser call.
type pres struct {
	val      interface{}
	err      error
	errText  string
	panicked bool
	panicVal string
}

// inputs carries the same content in the four instantiations. b and nb live in pool arenas.
type inputs struct {
	s  string
	b  []byte
	ns NS
	nb NB
}

func guard[V any](f func() (V, error)) (p pres) {
	defer func() {
		if r := recover(); r != nil {
			p = pres{panicked: true, panicVal: fmt.Sprint(r)}
		}
	}()
	v, err := f()
	p.val = v
	p.err = err
	if err != nil {
		// evaluated immediately: the library's error values keep a reference to a []byte
		// input and format lazily
		p.errText = err.Error()
	}
	return p
}

func call4[V any](in *inputs, f0 func(string) (V, error), f1 func([]byte) (V, error), f2 func(NS) (V, error), f3 func(NB) (V, error)) [4]pres {
	return [4]pres{
		guard(func() (V, error) { return f0(in.s) }),
		guard(func() (V, error) { return f1(in.b) }),
		guard(func() (V, error) { return f2(in.ns) }),
		guard(func() (V, error) { return f3(in.nb) }),
	}
}

type unit struct{}

// parserEntry is one function-level parser entry point with its rule variants.
type parserEntry struct {
	name  string
	ty    int
	rules []int
	call  func(in *inputs, rule int) [4]pres
}

var parserEntries = []parserEntry{
	{"date.DefaultParser", TDate, []int{0, int(date.RuleDisableBasic)}, func(in *inputs, r int) [4]pres {
		rule := date.Rule(r)
		return call4(in,
			func(x string) (date.Date, error) { return date.DefaultParser(x, rule) },
			func(x []byte) (date.Date, error) { return date.DefaultParser(x, rule) },
			func(x NS) (date.Date, error) { return date.DefaultParser(x, rule) },
			func(x NB) (date.Date, error) { return date.DefaultParser(x, rule) })
	}},
	{"roman.DefaultParser", TRoman, []int{0, int(roman.RuleDisableEmptyAsZero)}, func(in *inputs, r int) [4]pres {
		rule := roman.Rule(r)
		return call4(in,
			func(x string) (roman.Number, error) { return roman.DefaultParser(x, rule) },
			func(x []byte) (roman.Number, error) { return roman.DefaultParser(x, rule) },
			func(x NS) (roman.Number, error) { return roman.DefaultParser(x, rule) },
			func(x NB) (roman.Number, error) { return roman.DefaultParser(x, rule) })
	}},
	{"roman.Valid", TRoman, []int{0, int(roman.RuleDisableEmptyAsZero)}, func(in *inputs, r int) [4]pres {
		rule := roman.Rule(r)
		return call4(in,
			func(x string) (unit, error) { return unit{}, roman.Valid(x, rule) },
			func(x []byte) (unit, error) { return unit{}, roman.Valid(x, rule) },
			func(x NS) (unit, error) { return unit{}, roman.Valid(x, rule) },
			func(x NB) (unit, error) { return unit{}, roman.Valid(x, rule) })
	}},
	{"sem.DefaultParser", TSem, []int{0, int(sem.RuleDisableTag)}, func(in *inputs, r int) [4]pres {
		rule := sem.Rule(r)
		return call4(in,
			func(x string) (sem.Ver, error) { return sem.DefaultParser(x, rule) },
			func(x []byte) (sem.Ver, error) { return sem.DefaultParser(x, rule) },
			func(x NS) (sem.Ver, error) { return sem.DefaultParser(x, rule) },
			func(x NB) (sem.Ver, error) { return sem.DefaultParser(x, rule) })
	}},
	{"sem.Parse", TSem, []int{0}, func(in *inputs, r int) [4]pres {
		return call4(in,
			func(x string) (sem.Ver, error) { return sem.Parse(x) },
			func(x []byte) (sem.Ver, error) { return sem.Parse(x) },
			func(x NS) (sem.Ver, error) { return sem.Parse(x) },
			func(x NB) (sem.Ver, error) { return sem.Parse(x) })
	}},
	{"sem.ParseVersion", TSem, []int{0}, func(in *inputs, r int) [4]pres {
		return call4(in,
			func(x string) (sem.Ver, error) { return sem.ParseVersion(x) },
			func(x []byte) (sem.Ver, error) { return sem.ParseVersion(x) },
			func(x NS) (sem.Ver, error) { return sem.ParseVersion(x) },
			func(x NB) (sem.Ver, error) { return sem.ParseVersion(x) })
	}},
	{"sem.ParseTag", TSem, []int{0}, func(in *inputs, r int) [4]pres {
		return call4(in,
			func(x string) (sem.Ver, error) { return sem.ParseTag(x) },
			func(x []byte) (sem.Ver, error) { return sem.ParseTag(x) },
			func(x NS) (sem.Ver, error) { return sem.ParseTag(x) },
			func(x NB) (sem.Ver, error) { return sem.ParseTag(x) })
	}},
	{"size.DefaultParser", TSize, []int{0, int(size.RuleDisableUnit), int(size.RuleEnableJSONStringForm), int(size.RuleEnableJSONObjectForm),
		int(size.RuleEnableJSONStringForm | size.RuleEnableJSONObjectForm), int(size.RuleEnableJSONStringForm | size.RuleEnableJSONObjectForm | size.RuleDisallowUnknownKeys),
		int(size.RuleEnableJSONObjectForm | size.RuleDisableUnit)}, func(in *inputs, r int) [4]pres {
		rule := size.Rule(r)
		return call4(in,
			func(x string) (size.Size, error) { return size.DefaultParser(x, rule) },
			func(x []byte) (size.Size, error) { return size.DefaultParser(x, rule) },
			func(x NS) (size.Size, error) { return size.DefaultParser(x, rule) },
			func(x NB) (size.Size, error) { return size.DefaultParser(x, rule) })
	}},
	{"uu.DefaultParser", TUU, []int{0, int(uu.RuleDisableURN), int(uu.RuleDisableUpperCaseDigits), int(uu.RuleDisableURN | uu.RuleDisableUpperCaseDigits)}, func(in *inputs, r int) [4]pres {
		rule := uu.Rule(r)
		return call4(in,
			func(x string) (uu.ID, error) { return uu.DefaultParser(x, rule) },
			func(x []byte) (uu.ID, error) { return uu.DefaultParser(x, rule) },
			func(x NS) (uu.ID, error) { return uu.DefaultParser(x, rule) },
			func(x NB) (uu.ID, error) { return uu.DefaultParser(x, rule) })
	}},
}

// pairEntry is a two-input sem function; the four instantiation pairs mix the kinds.
type pairEntry struct {
	name string
	call func(a, b *inputs) [4]pres
}

func pair4[V any](a, b *inputs, f0 func(string, string) (V, error), f1 func([]byte, []byte) (V, error), f2 func(NS, NB) (V, error), f3 func(NB, string) (V, error)) [4]pres {
	return [4]pres{
		guard(func() (V, error) { return f0(a.s, b.s) }),
		guard(func() (V, error) { return f1(a.b, b.b) }),
		guard(func() (V, error) { return f2(a.ns, b.nb) }),
		guard(func() (V, error) { return f3(a.nb, b.s) }),
	}
}

var pairEntries = []pairEntry{
	{"sem.DefaultComparePreRelease", func(a, b *inputs) [4]pres {
		// no error result: the comparison itself is the value that must agree
		return pair4(a, b,
			func(x, y string) (int, error) { return sem.DefaultComparePreRelease(x, y), nil },
			func(x, y []byte) (int, error) { return sem.DefaultComparePreRelease(x, y), nil },
			func(x NS, y NB) (int, error) { return sem.DefaultComparePreRelease(x, y), nil },
			func(x NB, y string) (int, error) { return sem.DefaultComparePreRelease(x, y), nil })
	}},
	{"sem.Compare", func(a, b *inputs) [4]pres {
		return pair4(a, b,
			func(x, y string) (int, error) { return sem.Compare(x, y) },
			func(x, y []byte) (int, error) { return sem.Compare(x, y) },
			func(x NS, y NB) (int, error) { return sem.Compare(x, y) },
			func(x NB, y string) (int, error) { return sem.Compare(x, y) })
	}},
	{"sem.CompareTag", func(a, b *inputs) [4]pres {
		return pair4(a, b,
			func(x, y string) (int, error) { return sem.CompareTag(x, y) },
			func(x, y []byte) (int, error) { return sem.CompareTag(x, y) },
			func(x NS, y NB) (int, error) { return sem.CompareTag(x, y) },
			func(x NB, y string) (int, error) { return sem.CompareTag(x, y) })
	}},
	{"sem.Latest", func(a, b *inputs) [4]pres {
		return pair4(a, b,
			func(x, y string) (sem.Ver, error) { return sem.Latest(x, y) },
			func(x, y []byte) (sem.Ver, error) { return sem.Latest(x, y) },
			func(x NS, y NB) (sem.Ver, error) { return sem.Latest(x, y) },
			func(x NB, y string) (sem.Ver, error) { return sem.Latest(x, y) })
	}},
	{"sem.LatestTag", func(a, b *inputs) [4]pres {
		return pair4(a, b,
			func(x, y string) (sem.Ver, error) { return sem.LatestTag(x, y) },
			func(x, y []byte) (sem.Ver, error) { return sem.LatestTag(x, y) },
			func(x NS, y NB) (sem.Ver, error) { return sem.LatestTag(x, y) },
			func(x NB, y string) (sem.Ver, error) { return sem.LatestTag(x, y) })
	}},
	{"sem.LatestVersion", func(a, b *inputs) [4]pres {
		return pair4(a, b,
			func(x, y string) (sem.Ver, error) { return sem.LatestVersion(x, y) },
			func(x, y []byte) (sem.Ver, error) { return sem.LatestVersion(x, y) },
			func(x NS, y NB) (sem.Ver, error) { return sem.LatestVersion(x, y) },
			func(x NB, y string) (sem.Ver, error) { return sem.LatestVersion(x, y) })
	}},
}
