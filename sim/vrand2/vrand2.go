// Package vrand2 is the drop-in stand-in for math/rand/v2 inside a simulated run: Rand is
// the real wrapper, the sources (PCG, ChaCha8) and the top-level functions are simulated in
// the same way as in vrand (a non-thread-safe generator with a preemption point inside its
// read-modify-write; top-level functions are safe for concurrent use, as the real ones are).
package vrand2

import (
	randv2 "math/rand/v2"

	"go.lstv.dev/util/internal/vsim/vrand"
	"go.lstv.dev/util/internal/vsim/vsync"
)

// Rand, Source are the real types.
type (
	Rand   = randv2.Rand
	Source = randv2.Source
	Zipf   = randv2.Zipf
)

// New is rand.New.
func New(src Source) *Rand { return randv2.New(src) }

// PCG and ChaCha8 are simulated sources.
type (
	PCG     struct{ vrand.SimSource }
	ChaCha8 struct{ vrand.SimSource }
)

// NewPCG returns a simulated PCG source seeded with the two values.
func NewPCG(seed1, seed2 uint64) *PCG {
	p := &PCG{}
	p.SimSource.Seed(int64(seed1 ^ (seed2 * 0x9e3779b97f4a7c15)))
	return p
}

// Seed re-seeds the generator.
func (p *PCG) Seed(seed1, seed2 uint64) {
	p.SimSource.Seed(int64(seed1 ^ (seed2 * 0x9e3779b97f4a7c15)))
}

// NewChaCha8 returns a simulated ChaCha8 source.
func NewChaCha8(seed [32]byte) *ChaCha8 {
	c := &ChaCha8{}
	c.Seed(seed)
	return c
}

// Seed re-seeds the generator.
func (c *ChaCha8) Seed(seed [32]byte) {
	var x uint64
	for i, b := range seed {
		x = (x ^ uint64(b)<<(uint(i%8)*8)) * 0x100000001b3
	}
	c.SimSource.Seed(int64(x))
}

var (
	globalMu  vsync.Mutex
	globalSrc = NewPCG(1, 2)
	globalR   = randv2.New(globalSrc)
)

func with(f func()) {
	globalMu.Lock()
	defer globalMu.Unlock()
	f()
}

func Uint64() (v uint64)                 { with(func() { v = globalR.Uint64() }); return }
func Uint32() (v uint32)                 { with(func() { v = globalR.Uint32() }); return }
func Int64() (v int64)                   { with(func() { v = globalR.Int64() }); return }
func Int32() (v int32)                   { with(func() { v = globalR.Int32() }); return }
func Int() (v int)                       { with(func() { v = globalR.Int() }); return }
func Int64N(n int64) (v int64)           { with(func() { v = globalR.Int64N(n) }); return }
func Uint64N(n uint64) (v uint64)        { with(func() { v = globalR.Uint64N(n) }); return }
func Int32N(n int32) (v int32)           { with(func() { v = globalR.Int32N(n) }); return }
func Uint32N(n uint32) (v uint32)        { with(func() { v = globalR.Uint32N(n) }); return }
func IntN(n int) (v int)                 { with(func() { v = globalR.IntN(n) }); return }
func UintN(n uint) (v uint)              { with(func() { v = globalR.UintN(n) }); return }
func Float64() (v float64)               { with(func() { v = globalR.Float64() }); return }
func Float32() (v float32)               { with(func() { v = globalR.Float32() }); return }
func Perm(n int) (v []int)               { with(func() { v = globalR.Perm(n) }); return }
func Shuffle(n int, swap func(i, j int)) { with(func() { globalR.Shuffle(n, swap) }) }
func NormFloat64() (v float64)           { with(func() { v = globalR.NormFloat64() }); return }
func ExpFloat64() (v float64)            { with(func() { v = globalR.ExpFloat64() }); return }

// Uint is rand.Uint.
func Uint() (v uint) { with(func() { v = globalR.Uint() }); return }

// N is rand.N: a value in [0, n) of any integer type.
func N[Int interface {
	~int | ~int8 | ~int16 | ~int32 | ~int64 | ~uint | ~uint8 | ~uint16 | ~uint32 | ~uint64 | ~uintptr
}](n Int) Int {
	if n <= 0 {
		panic("invalid argument to N")
	}
	return Int(Uint64N(uint64(n)))
}

// NewZipf is rand.NewZipf.
func NewZipf(r *Rand, s float64, v float64, imax uint64) *Zipf { return randv2.NewZipf(r, s, v, imax) }
