// Package vrand is the drop-in stand-in for math/rand inside a simulated run. Rand is the
// real math/rand wrapper; what is simulated is the Source behind it: a generator that is
// not safe for concurrent use, whose Int63 is a read-modify-write of shared state with a
// preemption point in the middle, and whose output is a function of (run salt, seed given
// by the code, draw index) under a per-run entropy fault mode.
package vrand

import (
	"fmt"
	"math/rand"

	"go.lstv.dev/util/internal/vsim/sched"
	"go.lstv.dev/util/internal/vsim/vsync"
)

// Rand is the real wrapper type.
type Rand = rand.Rand

// Source and Source64 are the real interfaces.
type (
	Source   = rand.Source
	Source64 = rand.Source64
	Zipf     = rand.Zipf
)

// Entropy fault modes (index 0 is the honest one).
const (
	EUniform = iota
	EZeros
	EOnes
	ESparse
	EDense
	ERepeat2
	ERepeat3
	NumEntropy
)

// EntropyNames labels the modes.
var EntropyNames = [...]string{"uniform", "zeros", "ones", "sparse", "dense", "repeat2", "repeat3"}

// SimSource is the simulated non-thread-safe generator.
type SimSource struct {
	gen      uint64
	id       int
	codeSeed int64
	idx      uint64
	busy     *sched.Task
	// happens-before: epoch of the last access
	lastTask  int
	lastClock uint32
	hasLast   bool
	plainIdx  uint64
}

var (
	// Draws counts generator draws of the current run (probe).
	Draws int64
	// I2Enabled is switched off by the workload when the static scan finds synchronisation
	// the simulator does not model.
	I2Enabled = true
)

// Two different seeds with the same remainder modulo 2^31-1 give the same sequence (math/rand
// documents it): a tree that seeds from 64 bits of entropy meets that birthday bound, and the
// no-duplicate oracle, which holds draws to be distinct by construction, steps back for such a
// run — as long as the run has seeded fewer than seedingsExcused generators: below that the
// chance of the coincidence is under 2^-12 per run and no design can do better with math/rand;
// a design that seeds tens of thousands of generators per run (one per batch, say) has made the
// 31-bit seed space its own problem and stays judged. The same seed used twice is never excused.
const seedingsExcused = 1024

var (
	seedGen     uint64
	seedsSeen   map[int64]int64
	seedAliased bool
	seedings    int
)

// SeedsAliased reports whether the run in progress has used two different seeds with the same
// remainder. (State of an earlier run never answers for this one.)
func SeedsAliased() bool {
	sim := sched.Cur
	return sim != nil && seedGen == sim.Gen && seedAliased && seedings < seedingsExcused
}

func noteSeed(raw int64) {
	sim := sched.Cur
	if sim == nil {
		return
	}
	if seedGen != sim.Gen || seedsSeen == nil {
		seedGen, seedsSeen, seedAliased, seedings = sim.Gen, map[int64]int64{}, false, 0
	}
	seedings++
	r := reduceSeed(raw)
	if prev, ok := seedsSeen[r]; ok {
		if prev != raw {
			seedAliased = true
		}
		return
	}
	seedsSeen[r] = raw
}

// New is rand.New.
func New(src Source) *Rand { return rand.New(src) }

// NewSource returns a simulated source.
func NewSource(seed int64) Source {
	noteSeed(seed)
	return &SimSource{codeSeed: reduceSeed(seed)}
}

// reduceSeed mirrors what math/rand documents about seeding: "seed values that have the same
// remainder when divided by 2^31-1 generate the same pseudo-random sequence".
func reduceSeed(seed int64) int64 {
	const m = 1<<31 - 1
	seed %= m
	if seed < 0 {
		seed += m
	}
	return seed
}

// NewZipf is rand.NewZipf.
func NewZipf(r *Rand, s float64, v float64, imax uint64) *Zipf { return rand.NewZipf(r, s, v, imax) }

func mix64(z uint64) uint64 {
	z = (z ^ (z >> 30)) * 0xbf58476d1ce4e5b9
	z = (z ^ (z >> 27)) * 0x94d049bb133111eb
	return z ^ (z >> 31)
}

// Word is the k-th 64-bit output of a source with the given code seed under salt and mode.
// For fixed (salt, seed) it is a bijection of k in uniform mode.
func Word(mode int, salt uint64, seed int64, k uint64) uint64 {
	base := mix64(salt ^ mix64(uint64(seed)+0x9e3779b97f4a7c15))
	u := func(k uint64) uint64 { return mix64(base + (k+1)*0x9e3779b97f4a7c15) }
	switch mode {
	case EZeros:
		return 0
	case EOnes:
		return ^uint64(0)
	case ESparse:
		return 1 << (u(k) % 64)
	case EDense:
		return ^(uint64(1) << (u(k) % 64))
	case ERepeat2:
		return u(k % 2)
	case ERepeat3:
		return u(k % 3)
	}
	return u(k)
}

func (s *SimSource) sync(sim *sched.Sim) {
	if s.gen != sim.Gen {
		s.gen = sim.Gen
		s.id = sim.NewObjID()
		s.idx = 0
		s.busy = nil
		s.hasLast = false
	}
}

// access is the instrumented read-modify-write of the generator state.
func (s *SimSource) access(reseed bool, seed int64) uint64 {
	sim := sched.Cur
	if sim == nil || sim.Aborted() {
		// outside a run: plain deterministic stream
		if reseed {
			s.codeSeed = reduceSeed(seed)
			s.plainIdx = 0
			return 0
		}
		s.plainIdx++
		return Word(EUniform, 0, s.codeSeed, s.plainIdx-1)
	}
	s.sync(sim)
	me := sim.CurTask()
	// I1: overlap — another task is inside the read-modify-write right now
	if s.busy != nil && s.busy != me {
		sim.Fail("I1-overlap", "overlap",
			fmt.Sprintf("t%d entered generator#%d while t%d was inside its read-modify-write: concurrent unsynchronised access to a non-thread-safe math/rand source (a data race in the real program)", me.ID, s.id, s.busy.ID))
		return 0
	}
	// I2: happens-before — the previous access must be ordered before this one
	if I2Enabled && s.hasLast && s.lastTask != me.ID && me.VC[s.lastTask] < s.lastClock {
		sim.Fail("I2-happens-before", "unordered",
			fmt.Sprintf("t%d accessed generator#%d with no happens-before edge from the previous access by t%d (no common lock released and acquired in between): a data race in the real program", me.ID, s.id, s.lastTask))
		return 0
	}
	s.busy = me
	k := s.idx // read
	sim.Yield(sched.KRngMid, s.id)
	if sim.Aborted() {
		s.busy = nil
		return 0
	}
	if reseed {
		noteSeed(seed)
		s.codeSeed = reduceSeed(seed)
		s.idx = 0
	} else {
		s.idx = k + 1 // write
	}
	s.busy = nil
	s.lastTask = me.ID
	s.lastClock = me.VC[me.ID]
	s.hasLast = true
	Draws++
	return Word(sim.Entropy, sim.Salt, s.codeSeed, k)
}

// Int63 draws 63 bits.
func (s *SimSource) Int63() int64 { return int64(s.access(false, 0) >> 1) }

// Uint64 draws 64 bits.
func (s *SimSource) Uint64() uint64 { return s.access(false, 0) }

// Seed re-seeds the generator.
func (s *SimSource) Seed(seed int64) { s.access(true, seed) }

// ---- top-level functions: the real ones are documented safe for concurrent use, so the
// stand-ins are one global Rand over a SimSource guarded by a simulated mutex.

var (
	globalMu  vsync.Mutex
	globalSrc = &SimSource{codeSeed: 1}
	globalR   = rand.New(globalSrc)
)

func withGlobal(f func()) {
	globalMu.Lock()
	defer globalMu.Unlock()
	f()
}

// Seed seeds the global generator.
func Seed(seed int64) { withGlobal(func() { globalR.Seed(seed) }) }

// Int63 is rand.Int63.
func Int63() (v int64) { withGlobal(func() { v = globalR.Int63() }); return }

// Uint32 is rand.Uint32.
func Uint32() (v uint32) { withGlobal(func() { v = globalR.Uint32() }); return }

// Uint64 is rand.Uint64.
func Uint64() (v uint64) { withGlobal(func() { v = globalR.Uint64() }); return }

// Int31 is rand.Int31.
func Int31() (v int32) { withGlobal(func() { v = globalR.Int31() }); return }

// Int is rand.Int.
func Int() (v int) { withGlobal(func() { v = globalR.Int() }); return }

// Int63n is rand.Int63n.
func Int63n(n int64) (v int64) { withGlobal(func() { v = globalR.Int63n(n) }); return }

// Int31n is rand.Int31n.
func Int31n(n int32) (v int32) { withGlobal(func() { v = globalR.Int31n(n) }); return }

// Intn is rand.Intn.
func Intn(n int) (v int) { withGlobal(func() { v = globalR.Intn(n) }); return }

// Float64 is rand.Float64.
func Float64() (v float64) { withGlobal(func() { v = globalR.Float64() }); return }

// Float32 is rand.Float32.
func Float32() (v float32) { withGlobal(func() { v = globalR.Float32() }); return }

// Perm is rand.Perm.
func Perm(n int) (v []int) { withGlobal(func() { v = globalR.Perm(n) }); return }

// Shuffle is rand.Shuffle.
func Shuffle(n int, swap func(i, j int)) { withGlobal(func() { globalR.Shuffle(n, swap) }) }

// Read is rand.Read.
func Read(p []byte) (n int, err error) { withGlobal(func() { n, err = globalR.Read(p) }); return }

// NormFloat64 is rand.NormFloat64.
func NormFloat64() (v float64) { withGlobal(func() { v = globalR.NormFloat64() }); return }

// ExpFloat64 is rand.ExpFloat64.
func ExpFloat64() (v float64) { withGlobal(func() { v = globalR.ExpFloat64() }); return }
