// Package vcrand is the drop-in stand-in for crypto/rand inside a simulated run: the system's
// entropy source is one more input the simulator owns. Bytes are a function of (run salt, read
// index) under the run's entropy fault mode, so a run that seeds from crypto/rand replays.
package vcrand

import (
	"io"
	"math/big"

	"go.lstv.dev/util/internal/vsim/sched"
	"go.lstv.dev/util/internal/vsim/vrand"
)

const stream = 0x6372616e64 // "crand": the code seed of this stream

var (
	gen      uint64
	idx      uint64
	plainIdx uint64 // reads outside a run (package initialisation of the tree under test)
	// Reads counts calls of the current run (probe).
	Reads int64
)

type reader struct{}

// Reader is the simulated system entropy source.
var Reader io.Reader = reader{}

func (reader) Read(b []byte) (int, error) { return Read(b) }

// ResetPlain is called before the packages under test are re-initialised for a run: what their
// initialisation reads from the entropy source is then the same for every run, whatever the
// process ran before.
func ResetPlain() { plainIdx = 0 }

// Read fills b.
func Read(b []byte) (int, error) {
	mode, salt := vrand.EUniform, uint64(0)
	k := &plainIdx
	if sim := sched.Cur; sim != nil && !sim.Aborted() {
		k = &idx
		if gen != sim.Gen {
			gen, idx = sim.Gen, 0
		}
		mode, salt = sim.Entropy, sim.Salt
		sim.Yield(sched.KOther, 0)
		Reads++
	}
	for i := 0; i < len(b); i += 8 {
		w := vrand.Word(mode, salt, stream, *k)
		*k++
		for j := 0; j < 8 && i+j < len(b); j++ {
			b[i+j] = byte(w >> (8 * uint(j)))
		}
	}
	return len(b), nil
}

// Int is crypto/rand.Int over the simulated source.
func Int(r io.Reader, max *big.Int) (*big.Int, error) {
	if max.Sign() <= 0 {
		panic("crypto/rand: argument to Int is <= 0")
	}
	n := new(big.Int).Sub(max, big.NewInt(1))
	k := (n.BitLen() + 7) / 8
	if k == 0 {
		return new(big.Int), nil
	}
	buf := make([]byte, k+8)
	if _, err := io.ReadFull(r, buf); err != nil {
		return nil, err
	}
	v := new(big.Int).SetBytes(buf)
	return v.Mod(v, max), nil
}
