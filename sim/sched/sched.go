// Package sched is the seeded cooperative scheduler: simulated caller threads are real
// goroutines, but exactly one runs at a time and every hand-off is decided by the tape.
package sched

import (
	"fmt"
	"runtime"
	"sync/atomic"

	"go.lstv.dev/util/internal/vsim/core"
)

// Kind names a yield point.
type Kind uint8

// Yield point kinds.
const (
	KStart Kind = iota
	KPreCall
	KPostCall
	KLock
	KBlocked
	KAcquired
	KUnlock
	KRLock
	KRUnlock
	KRngEnter
	KRngMid
	KNow
	KSleep
	KOnce
	KWgAdd
	KWgWait
	KCondWait
	KCondSignal
	KDone
	KOther
	KGo
	KSend
	KRecv
	KSelect
	KClose
	KAtomic
	KAccess
	KTimer
)

var kindNames = [...]string{"start", "pre-call", "post-call", "lock", "blocked", "acquired", "unlock", "rlock", "runlock",
	"rng-enter", "rng-mid", "now", "sleep", "once", "wg-add", "wg-wait", "cond-wait", "cond-signal", "done", "other",
	"go", "send", "recv", "select", "close", "atomic", "access", "timer"}

func (k Kind) String() string {
	if int(k) < len(kindNames) {
		return kindNames[k]
	}
	return "?"
}

// Strategy selects how the next task is chosen.
type Strategy uint8

// Scheduling strategies (swarm: one per run).
const (
	SUniform Strategy = iota
	SSticky50
	SSticky90
	SRunToBlock
	SPCT
	SStarve
	NumStrategies
)

var stratNames = [...]string{"uniform", "sticky50", "sticky90", "run-to-block", "pct", "starve"}

func (s Strategy) String() string { return stratNames[s] }

// ClockMode selects how the simulated clock moves.
type ClockMode uint8

// Clock behaviours.
const (
	CFrozen ClockMode = iota
	CTick
	CJumpFwd
	CJumpBack
	NumClockModes
)

var clockNames = [...]string{"frozen", "tick", "jump-forward", "jump-backward"}

func (c ClockMode) String() string { return clockNames[c] }

// Waitable is anything a task can block on.
type Waitable interface {
	// Free reports whether task t could proceed now.
	Free(t *Task) bool
	Name() string
}

// Task is one simulated caller thread.
type Task struct {
	ID        int
	resume    chan struct{}
	done      bool
	arriveAt  int64 // step at which the task becomes runnable
	blockedOn Waitable
	VC        []uint32
	prio      int
	lastRun   int64 // last step at which it ran
	holding   int   // number of simulated locks held
	daemon    bool  // started by a go statement of the code under test: the run does not wait for it
	exiting   bool  // being torn down with runtime.Goexit at the end of the run
	started   bool
	gone      bool   // its goroutine has handed the baton on for the last time
	goid      uint64 // simulated goroutine id, assigned when somebody first asks for it
	stalled   bool   // held at a rarely reached preemption point (the "stalled node" fault)
	stallKey  uint32
	stallEnd  int64
}

// IsDaemon reports whether the task was started by the code under test.
func (t *Task) IsDaemon() bool { return t.daemon }

// Sim is one simulated run.
type Sim struct {
	firingVC        []uint32 // while a timer callback runs: the clock of the task that armed it
	timerSeq        int
	heldAcrossYield bool
	lastGoID        uint64
	Tape            *core.Tape
	Gen             uint64 // run generation; objects lazily reset themselves when it changes
	tasks           []*Task
	cur             *Task
	Steps           int64
	MaxSteps        int64
	aborted         bool
	Viol            *core.Violation
	Infra           string
	hash            core.Hash64
	keep            bool
	Trace           []string
	strategy        Strategy
	clock           ClockMode
	NowNs           int64 // simulated wall clock (can jump backwards: clock skew)
	MonoNs          int64 // simulated monotonic clock (timers and Sleep; never goes back)
	Faults          core.Counters
	Probes          core.Counters
	finished        chan struct{}
	nextObj         int
	Salt            uint64
	Entropy         int

	// PCT
	changePoints []int64
	lowPrio      int
	// starvation
	victim           int
	starveFrom       int64
	starveLen        int64
	lastSwitchFrom   int
	contendedThisRun bool

	vcLen    int
	created  int32 // goroutines started (atomic: read by the driver)
	exit     chan struct{}
	timers   []timer
	hint     bool
	draining bool // all caller tasks are done: daemons are being torn down
	pending  []func()

	// stalled-node fault: a task that reaches a preemption point almost nobody reaches is held
	// there until another task arrives at the same point (or nobody else can run, or the stall
	// runs out); the two are then interleaved uniformly for a short burst.
	rareStall  bool
	siteCount  map[uint32]int32
	stalledNow int
	stallLimit int64
	stallsLeft int
	burst      int
}

type timer struct {
	at   int64
	seq  int
	fire func()
	vc   []uint32 // what the arming task knew: arming a timer happens before its firing
}

// vcHeadroom is how many goroutines the code under test may start per run.
const vcHeadroom = 160

var (
	// Cur is the run in progress, nil outside a run. Only ever touched by the goroutine
	// that holds the baton (or by the driver while no task runs).
	Cur *Sim
	gen uint64
)

// Config is drawn from the tape by the workload.
type Config struct {
	Strategy Strategy
	Clock    ClockMode
	MaxSteps int64
	Keep     bool
	// RareStall switches the stalled-node fault on (see Sim.rareStall).
	RareStall bool
}

// New starts a run.
func New(t *core.Tape, c Config) *Sim {
	gen++
	s := &Sim{Tape: t, Gen: gen, MaxSteps: c.MaxSteps, keep: c.Keep, strategy: c.Strategy, clock: c.Clock,
		hash: core.NewHash(), Faults: core.Counters{}, Probes: core.Counters{}, finished: make(chan struct{}), victim: -1}
	if c.RareStall {
		s.rareStall = true
		s.siteCount = map[uint32]int32{}
		s.stallLimit = 4096 << uint(t.Choose(9))
		s.stallsLeft = maxStalls
	}
	return s
}

// Aborted reports whether the run has been abandoned (violation, budget); all primitives
// are non-blocking no-ops from then on so that every goroutine drains.
func (s *Sim) Aborted() bool { return s.Check() }

// CurTask returns the running task.
func (s *Sim) CurTask() *Task { return s.cur }

// NumTasks returns the vector-clock width of this run (caller tasks plus headroom for
// goroutines the code under test starts).
func (s *Sim) NumTasks() int { return s.vcLen }

// Check is what every simulated primitive asks first: true means "the run is over, be a
// no-op". A daemon goroutine is torn down here (its deferred calls run; they see no-ops).
func (s *Sim) Check() bool {
	if !s.aborted {
		return false
	}
	// the run is over: whoever reaches a simulated operation is torn down here (its deferred
	// calls run and see no-ops). Callers too, not only daemons: a hand-written spin lock
	// would otherwise wait forever for a holder that is parked and will never run again.
	if t := s.cur; t != nil && !t.exiting && t.started {
		t.exiting = true
		runtime.Goexit()
	}
	return true
}

// pendingInit holds goroutines the code under test started outside a run (package
// initialisation, re-executed by VsimReset): they become daemons of the next run.
var pendingInit []func()

// pendingTimers holds timers the code under test armed outside a run (a ticker made by a
// package initialiser): they start counting when the next run starts.
var pendingTimers []pendingTimer

type pendingTimer struct {
	d    int64
	fire func(s *Sim)
}

// AddTimerAnywhere arms a timer in the current run or, outside a run, in the next one.
func AddTimerAnywhere(d int64, fire func(s *Sim)) {
	if s := Cur; s != nil {
		if !s.aborted {
			s.AddTimer(d, func() { fire(s) })
		}
		return
	}
	pendingTimers = append(pendingTimers, pendingTimer{d, fire})
}

// Go is the stand-in for a go statement of the code under test.
func Go(f func()) {
	s := Cur
	if s == nil {
		pendingInit = append(pendingInit, f)
		return
	}
	if s.Check() {
		return
	}
	s.spawn(f, s.cur)
	s.Yield(KGo, len(s.tasks)-1)
}

// Procs is what the code under test is told about the machine in the current run (chosen by
// the workload from the tape): GOMAXPROCS and NumCPU.
var Procs = 4

// GOMAXPROCS is the stand-in for runtime.GOMAXPROCS: it reports the simulated value and
// accepts (and ignores) a new one, as far as the simulation is concerned.
func GOMAXPROCS(n int) int {
	old := Procs
	if n > 0 && Cur != nil {
		Procs = n
	}
	return old
}

// NumCPU is the stand-in for runtime.NumCPU.
func NumCPU() int { return Procs }

// NumGoroutine is the stand-in for runtime.NumGoroutine: the simulated tasks that are alive.
func NumGoroutine() int {
	s := Cur
	if s == nil {
		return 1
	}
	n := 0
	for _, t := range s.tasks {
		if !t.done && t.arriveAt <= s.Steps {
			n++
		}
	}
	if n == 0 {
		n = 1
	}
	return n
}

// Stack is the stand-in for runtime.Stack as far as its first line goes ("goroutine N
// [running]:"), which is what code that wants a goroutine id parses. Real ids are unique,
// never reused and handed out process-wide, so what a given goroutine gets depends on
// everything else the program has started: here N is unique within the run, grows in the
// order in which tasks first ask, and the gaps are tape-chosen (mostly small, sometimes a
// power of two or one off it: two live goroutines whose ids agree in their low bits are
// rare in a test and ordinary in a long-lived process).
func Stack(buf []byte, all bool) int {
	s := Cur
	id := uint64(1)
	if s != nil && s.cur != nil && !s.aborted {
		t := s.cur
		if t.goid == 0 {
			if s.lastGoID == 0 {
				s.lastGoID = 1 + uint64(s.Tape.Choose(1<<16))
			}
			gaps := [...]uint64{1, 1, 1, 2, 3, 5, 16, 63, 64, 65, 255, 256, 257, 512, 1023, 1024, 4096, 65536, 1 << 20}
			s.lastGoID += gaps[s.Tape.Choose(len(gaps))]
			t.goid = s.lastGoID
		}
		id = t.goid
	}
	return copy(buf, fmt.Sprintf("goroutine %d [running]:\nvsim.simulated(...)\n\t/vsim/task.go:1 +0x1\n", id))
}

// ClearPending forgets goroutines started outside a run so far (the harness calls it before
// re-initialising the packages, so that exactly one initialisation's goroutines join a run).
func ClearPending() { pendingInit, pendingTimers = nil, nil }

// Gosched is the stand-in for runtime.Gosched: a polite yield.
func Gosched() {
	s := Cur
	if s == nil || s.Check() {
		return
	}
	s.YieldHint()
	s.Yield(KOther, 0)
}

// GoFromTimer starts f as a daemon task from a timer callback (no parent clock: a timer
// firing is ordered after the call that armed it only through the clock).
func GoFromTimer(f func()) {
	if s := Cur; s != nil && !s.aborted {
		// the goroutine of an AfterFunc callback starts after the call that armed the timer
		s.spawnVC(f, nil, s.firingVC)
	}
}

// FiringVC is, while a timer callback runs, a copy of the clock of the task that armed the timer.
func (s *Sim) FiringVC() []uint32 {
	if s.firingVC == nil {
		return nil
	}
	return append([]uint32(nil), s.firingVC...)
}

func (s *Sim) spawn(f func(), parent *Task) { s.spawnVC(f, parent, nil) }

func (s *Sim) spawnVC(f func(), parent *Task, init []uint32) {
	// a finished goroutine's slot is reused (the simulator bounds how many goroutines of the
	// code under test are alive at once, not how many it starts): the newcomer continues the
	// old incarnation's clock component, which orders it after everything its predecessor
	// did - that can hide a race between the two incarnations, it cannot invent one
	slot := -1
	for i, o := range s.tasks {
		if o.daemon && o.done && o.gone {
			slot = i
			break
		}
	}
	if slot < 0 && len(s.tasks) >= s.vcLen {
		s.FailInfra(fmt.Sprintf("the code under test has more than %d goroutines alive at once", vcHeadroom))
		return
	}
	t := &Task{resume: make(chan struct{}, 1), VC: make([]uint32, s.vcLen), daemon: true}
	if parent != nil {
		// the go statement happens before the goroutine's execution begins
		copy(t.VC, parent.VC)
		parent.VC[parent.ID]++
	} else if init != nil {
		copy(t.VC, init)
	}
	if slot >= 0 {
		t.ID = slot
		t.VC[slot] = s.tasks[slot].VC[slot] + 1
		t.prio = s.tasks[slot].prio
		s.tasks[slot] = t
		s.Faults.Inc("goroutine_slot_reused")
	} else {
		t.ID = len(s.tasks)
		t.prio = -1000 - len(s.tasks)
		t.VC[t.ID] = 1
		s.tasks = append(s.tasks, t)
		width = len(s.tasks)
	}
	s.Faults.Inc("goroutine_started_by_code")
	s.launch(t, func(int) { f() })
}

func (s *Sim) launch(t *Task, body func(task int)) {
	atomic.AddInt32(&s.created, 1)
	go func() {
		<-t.resume
		t.started = true
		defer func() {
			t.done = true
			t.gone = true
			s.taskDone(t)
			s.exit <- struct{}{}
		}()
		if s.aborted {
			return
		}
		defer func() {
			if r := recover(); r != nil {
				s.Fail("E3-panic", "panic", fmt.Sprintf("task %d panicked: %v", t.ID, r))
			}
		}()
		body(t.ID)
	}()
}

// AddTimer registers fire to run when the simulated monotonic clock reaches MonoNs+d. The
// pending timers are a binary heap ordered by (deadline, registration number): code that arms a
// timer per call and never lets it fire (a frozen clock) would otherwise make every step scan
// all of them.
func (s *Sim) AddTimer(d int64, fire func()) {
	if d < 0 {
		d = 0
	}
	s.timerSeq++
	var vc []uint32
	if s.cur != nil && !s.cur.done {
		vc = append([]uint32(nil), s.cur.VC...)
		s.cur.VC[s.cur.ID]++
	} else if s.firingVC != nil {
		vc = s.firingVC // re-armed from a timer callback (a ticker)
	}
	s.timers = append(s.timers, timer{at: s.MonoNs + d, seq: s.timerSeq, fire: fire, vc: vc})
	// sift up
	i := len(s.timers) - 1
	for i > 0 {
		p := (i - 1) / 2
		if !timerLess(s.timers[i], s.timers[p]) {
			break
		}
		s.timers[i], s.timers[p] = s.timers[p], s.timers[i]
		i = p
	}
}

func timerLess(a, b timer) bool { return a.at < b.at || (a.at == b.at && a.seq < b.seq) }

func (s *Sim) popTimer() timer {
	top := s.timers[0]
	n := len(s.timers) - 1
	s.timers[0] = s.timers[n]
	s.timers[n] = timer{}
	s.timers = s.timers[:n]
	i := 0
	for {
		l, r, m := 2*i+1, 2*i+2, i
		if l < n && timerLess(s.timers[l], s.timers[m]) {
			m = l
		}
		if r < n && timerLess(s.timers[r], s.timers[m]) {
			m = r
		}
		if m == i {
			break
		}
		s.timers[i], s.timers[m] = s.timers[m], s.timers[i]
		i = m
	}
	return top
}

// fireTimers runs every timer whose deadline has passed, in (deadline, registration) order.
func (s *Sim) fireTimers() {
	for len(s.timers) > 0 && s.timers[0].at <= s.MonoNs {
		t := s.popTimer()
		s.Faults.Inc("timer_fired")
		prev := s.firingVC
		s.firingVC = t.vc
		t.fire()
		s.firingVC = prev
	}
}

// nextTimer returns the earliest pending deadline.
func (s *Sim) nextTimer() (int64, bool) {
	if len(s.timers) == 0 {
		return 0, false
	}
	return s.timers[0].at, true
}

// NewObjID hands out per-run object ids in order of first use.
func (s *Sim) NewObjID() int {
	s.nextObj++
	return s.nextObj
}

// TraceHash returns the hash over all events so far.
func (s *Sim) TraceHash() uint64 { return uint64(s.hash) }

// Event records something that is not a yield point (fault injection, results).
func (s *Sim) Event(kind string, a, b uint64) {
	s.hash.AddString(kind)
	s.hash.Add(a)
	s.hash.Add(b)
	if s.keep {
		s.Trace = append(s.Trace, fmt.Sprintf("step %d   %s %d %d", s.Steps, kind, a, b))
	}
}

// Logf appends a line to the human trace only (never hashed, never draws).
func (s *Sim) Logf(format string, args ...interface{}) {
	if s.keep {
		s.Trace = append(s.Trace, fmt.Sprintf("step %d   ", s.Steps)+fmt.Sprintf(format, args...))
	}
}

// Fail records a violation and abandons the run.
func (s *Sim) Fail(inv, key, detail string) {
	if s.Viol == nil && s.Infra == "" {
		s.Viol = &core.Violation{Invariant: inv, Key: key, Detail: detail}
		s.Logf("VIOLATION %s: %s", inv, detail)
	}
	s.aborted = true
}

// FailInfra abandons the run for a reason that is not a property violation.
func (s *Sim) FailInfra(msg string) {
	if s.Infra == "" && s.Viol == nil {
		s.Infra = msg
	}
	s.aborted = true
}

// Run executes n caller tasks with the given body under the scheduler and returns when all
// goroutines (callers and whatever the code under test started) have finished. arrive[i] is
// the step at which task i becomes runnable.
func (s *Sim) Run(n int, arrive []int64, body func(task int)) {
	s.vcLen = n + vcHeadroom
	s.tasks = make([]*Task, n, s.vcLen)
	for i := 0; i < n; i++ {
		t := &Task{ID: i, resume: make(chan struct{}, 1), VC: make([]uint32, s.vcLen), prio: i}
		t.VC[i] = 1
		if arrive != nil {
			t.arriveAt = arrive[i]
		}
		s.tasks[i] = t
	}
	width = n
	s.setupStrategy()
	s.exit = make(chan struct{}, 4)
	Cur = s
	for i := 0; i < n; i++ {
		s.launch(s.tasks[i], body)
	}
	// goroutines started during package (re-)initialisation become daemons of this run
	for _, f := range pendingInit {
		s.spawn(f, nil)
	}
	pendingInit = nil
	for _, pt := range pendingTimers {
		pt := pt
		s.AddTimer(pt.d, func() { pt.fire(s) })
	}
	pendingTimers = nil
	first := s.pick(nil)
	if first == nil {
		// nobody can arrive: treat as arriving now
		first = s.tasks[0]
	}
	s.cur = first
	s.note(first, KStart, 0)
	first.resume <- struct{}{}
	for exited := int32(0); ; {
		<-s.exit
		exited++
		if exited == atomic.LoadInt32(&s.created) {
			break
		}
	}
	s.cur = nil
	Cur = nil
}

// OnTaskExit, if set, is told when a task's goroutine ends (vrace forgets its private memory).
var OnTaskExit func(s *Sim, id int)

func (s *Sim) taskDone(t *Task) {
	s.note(t, KDone, 0)
	if OnTaskExit != nil {
		OnTaskExit(s, t.ID)
	}
	var next *Task
	if !s.aborted && s.unfinishedCallers() == 0 {
		// every caller has returned: the run is over, daemons are torn down
		s.draining = true
		s.aborted = true
	}
	if !s.aborted {
		next = s.pick(t)
		if next == nil {
			s.Fail("E1-stuck", "stuck", "no runnable task while some caller is unfinished: "+s.waitGraph())
		}
	}
	if s.aborted {
		// drain: resume any unfinished task, ignoring enabledness
		next = nil
		for _, o := range s.tasks {
			if !o.done && o != t {
				next = o
				break
			}
		}
	}
	if next != nil {
		s.cur = next
		next.resume <- struct{}{}
	}
}

func (s *Sim) unfinishedCallers() int {
	n := 0
	for _, t := range s.tasks {
		if !t.done && !t.daemon {
			n++
		}
	}
	return n
}

func (s *Sim) unfinished() int {
	n := 0
	for _, t := range s.tasks {
		if !t.done {
			n++
		}
	}
	return n
}

func (s *Sim) waitGraph() string {
	out := ""
	for _, t := range s.tasks {
		if t.done {
			continue
		}
		if t.blockedOn != nil {
			out += fmt.Sprintf("t%d waits for %s; ", t.ID, t.blockedOn.Name())
		} else if t.arriveAt > s.Steps {
			out += fmt.Sprintf("t%d not arrived; ", t.ID)
		} else {
			out += fmt.Sprintf("t%d runnable; ", t.ID)
		}
	}
	return out
}

func (s *Sim) enabled(t *Task) bool {
	if t.done || t.arriveAt > s.Steps {
		return false
	}
	if t.stalled {
		if s.Steps < t.stallEnd {
			return false
		}
		s.unstall(t, "stall_expired")
	}
	return t.blockedOn == nil || t.blockedOn.Free(t)
}

// note hashes and logs one scheduling event.
func (s *Sim) note(t *Task, k Kind, obj int) {
	s.hash.Add(uint64(t.ID)<<16 | uint64(k)<<8)
	s.hash.Add(uint64(obj))
	if s.keep {
		if obj != 0 {
			s.Trace = append(s.Trace, fmt.Sprintf("step %d t%d %s #%d", s.Steps, t.ID, k, obj))
		} else {
			s.Trace = append(s.Trace, fmt.Sprintf("step %d t%d %s", s.Steps, t.ID, k))
		}
	}
}

// Yield is a preemption point of the running task.
func (s *Sim) Yield(k Kind, obj int) {
	if s.Check() {
		return
	}
	me := s.cur
	s.Steps++
	me.lastRun = s.Steps
	s.note(me, k, obj)
	if me.holding > 0 && !s.heldAcrossYield {
		// a critical section with a preemption point in it: only such a lock can be contended
		s.heldAcrossYield = true
		s.Probes.Inc("lock_held_across_yield")
	}
	if s.Steps > s.MaxSteps {
		s.FailInfra(fmt.Sprintf("step budget %d exhausted without a verdict: %s", s.MaxSteps, s.waitGraph()))
		return
	}
	s.advanceClock()
	if len(s.timers) > 0 {
		s.fireTimers()
	}
	if s.rareStall {
		s.stallAt(me, k, obj)
	}
	next := s.pick(me)
	if next == nil {
		if me.blockedOn != nil {
			s.Fail("E1-stuck", "stuck", "no runnable task: "+s.waitGraph()+fmt.Sprintf("t%d waits for %s", me.ID, me.blockedOn.Name()))
			return
		}
		next = me
	}
	if next == me {
		return
	}
	if k == KRngMid {
		s.Faults.Inc("preempt_in_rmw")
	}
	if me.holding > 0 {
		s.Faults.Inc("preempt_holding_lock")
	}
	s.cur = next
	next.resume <- struct{}{}
	<-me.resume
	// back on the baton
	s.Check()
}

// BlockOn parks the running task until w is free for it. Returns immediately when the run
// is aborted.
func (s *Sim) BlockOn(w Waitable, obj int) {
	me := s.cur
	for !s.Check() && !w.Free(me) {
		me.blockedOn = w
		s.noteContention(me)
		s.Yield(KBlocked, obj)
		me.blockedOn = nil
	}
}

// rareSiteMax is how often a preemption point (kind, object) may have been reached in a run
// and still count as rarely reached; stallWarmup keeps the start of the run, where every
// point is new, out of it.
const (
	rareSiteMax = 3
	stallWarmup = 256
	stallBurst  = 48
	maxStalls   = 12 // per run: the fault is an episode, not a way of life
)

func (s *Sim) stallAt(me *Task, k Kind, obj int) {
	if k == KBlocked || k == KDone || k == KStart {
		return
	}
	key := uint32(k)<<24 | uint32(obj)&0xffffff
	c := s.siteCount[key]
	s.siteCount[key] = c + 1
	if s.stalledNow > 0 {
		for _, t := range s.tasks {
			if t.stalled && t != me && t.stallKey == key {
				// somebody else has come to where the stalled task waits: let them go on together
				s.unstall(t, "stall_rendezvous")
				s.burst = stallBurst
			}
		}
		return
	}
	if s.Steps < stallWarmup || c > rareSiteMax || me.daemon || s.stallsLeft == 0 {
		return
	}
	s.Probes.Inc("rare_site_reached")
	others := 0
	for _, t := range s.tasks {
		if t != me && !t.done && !t.daemon {
			others++
		}
	}
	if others == 0 {
		return
	}
	me.stalled = true
	s.stallsLeft--
	me.stallKey = key
	me.stallEnd = s.Steps + s.stallLimit
	s.stalledNow++
	s.Faults.Inc("stalled_at_rare_site")
	if s.keep {
		s.Trace = append(s.Trace, fmt.Sprintf("step %d t%d stalled at %s #%d", s.Steps, me.ID, k, obj))
	}
}

func (s *Sim) unstall(t *Task, why string) {
	if !t.stalled {
		return
	}
	t.stalled = false
	s.stalledNow--
	s.Faults.Inc(why)
	if s.keep {
		s.Trace = append(s.Trace, fmt.Sprintf("step %d t%d released (%s)", s.Steps, t.ID, why))
	}
}

func (s *Sim) unstallAll(why string) bool {
	any := false
	for _, t := range s.tasks {
		if t.stalled {
			s.unstall(t, why)
			any = true
		}
	}
	return any
}

func (s *Sim) noteContention(me *Task) {
	s.Probes.Inc("lock_contended")
	s.Probes.Inc("lock_blocked")
	s.contendedThisRun = true
	blocked := 0
	live := 0
	for _, t := range s.tasks {
		if t.done || t.arriveAt > s.Steps {
			continue
		}
		live++
		if t == me || (t.blockedOn != nil && !t.blockedOn.Free(t)) {
			blocked++
		}
	}
	if blocked >= 2 {
		s.Probes.Inc("waiters_ge_2")
	}
	if live >= 2 && blocked == live-1 {
		s.Probes.Inc("all_other_tasks_blocked")
	}
	for _, t := range s.tasks {
		if t.holding > 0 && s.Steps-t.lastRun >= 8 {
			s.Probes.Inc("holder_starved")
			break
		}
	}
}

// Contended reports whether any task ever blocked during this run.
func (s *Sim) Contended() bool { return s.contendedThisRun }

// Holding adjusts the number of simulated locks held by the running task.
func (s *Sim) Holding(d int) {
	if s.cur != nil {
		s.cur.holding += d
		if d > 0 {
			s.Probes.Inc("lock_acquired")
		}
	}
}

func (s *Sim) advanceClock() {
	switch s.clock {
	case CFrozen:
		return
	case CTick:
		switch c := s.Tape.Choose(16); {
		case c < 11:
		case c < 14:
			s.NowNs += 1000
			s.MonoNs += 1000
			s.Faults.Inc("clock_tick_us")
		default:
			s.NowNs += 1000000
			s.MonoNs += 1000000
			s.Faults.Inc("clock_tick_ms")
		}
	case CJumpFwd, CJumpBack:
		switch c := s.Tape.Choose(16); {
		case c < 12:
		case c < 15:
			s.NowNs += 1000000
			s.MonoNs += 1000000
			s.Faults.Inc("clock_tick_ms")
		default:
			if s.clock == CJumpFwd {
				s.NowNs += 3600 * 1000000000
				s.MonoNs += 3600 * 1000000000
				s.Faults.Inc("clock_jump_forward")
			} else {
				s.NowNs -= 3600 * 1000000000
				s.Faults.Inc("clock_jump_backward")
			}
		}
	}
}

func (s *Sim) setupStrategy() {
	n := len(s.tasks)
	switch s.strategy {
	case SPCT:
		// random priorities (Fisher-Yates from the tape), d <= 3 change points
		for i := n - 1; i > 0; i-- {
			j := s.Tape.Choose(i + 1)
			s.tasks[i].prio, s.tasks[j].prio = s.tasks[j].prio, s.tasks[i].prio
		}
		d := s.Tape.Choose(4)
		for i := 0; i < d; i++ {
			s.changePoints = append(s.changePoints, int64(1+s.Tape.Choose(400)))
		}
		s.lowPrio = -1
	case SStarve:
		s.victim = s.Tape.Choose(n)
		s.starveFrom = int64(s.Tape.Choose(60))
		s.starveLen = int64(5 + s.Tape.Choose(200))
	}
}

// YieldHint tells the scheduler that the running task is politely waiting (failed TryLock,
// Sleep): the unfair strategies must not let it starve the task it is waiting for (PCT
// lowers its priority, as in the original algorithm; run-to-block and sticky switch away).
func (s *Sim) YieldHint() { s.hint = true }

// pick chooses the next task to run; cur may be nil (start) or done.
func (s *Sim) pick(cur *Task) *Task {
	hint := s.hint
	s.hint = false
	if hint && s.stalledNow > 0 {
		// the running task is politely waiting, perhaps for the stalled one
		s.unstallAll("stall_released_waited_for")
	}
	if hint && cur != nil && s.strategy == SPCT {
		cur.prio = s.lowPrio
		s.lowPrio--
	}
	var en []*Task
	curEnabled := false
	if cur != nil && s.enabled(cur) {
		curEnabled = true
		en = append(en, cur) // index 0 = "keep running": the simple choice
	}
	for _, t := range s.tasks {
		if t != cur && s.enabled(t) {
			en = append(en, t)
		}
	}
	if len(en) == 0 {
		// nothing enabled now; tasks that have not arrived yet can still come
		var soon *Task
		for _, t := range s.tasks {
			if !t.done && t.arriveAt > s.Steps && (t.blockedOn == nil) {
				if soon == nil || t.arriveAt < soon.arriveAt {
					soon = t
				}
			}
		}
		if soon != nil {
			// discrete-event jump: nothing is runnable, so advance to the next arrival
			s.Steps = soon.arriveAt
			s.Faults.Inc("staggered_arrival_jump")
			return soon
		}
		if s.stalledNow > 0 && s.unstallAll("stall_released_idle") {
			return s.pick(cur)
		}
		// nothing runnable, nobody to arrive: jump the simulated clock to the next timer
		if at, ok := s.nextTimer(); ok {
			if at > s.MonoNs {
				s.NowNs += at - s.MonoNs
				s.MonoNs = at
			}
			s.Faults.Inc("clock_jump_to_timer")
			s.fireTimers()
			return s.pick(cur)
		}
		return nil
	}
	if len(en) == 1 {
		return en[0]
	}
	if s.burst > 0 {
		s.burst--
		return en[s.Tape.Choose(len(en))]
	}
	if hint && curEnabled && (s.strategy == SRunToBlock || s.strategy == SSticky50 || s.strategy == SSticky90) {
		return en[1+s.Tape.Choose(len(en)-1)]
	}
	switch s.strategy {
	case SUniform:
		return en[s.Tape.Choose(len(en))]
	case SSticky50, SSticky90:
		den := 2
		if s.strategy == SSticky90 {
			den = 10
		}
		if curEnabled {
			if !s.Tape.Bool(1, den) {
				return cur
			}
			return en[1+s.Tape.Choose(len(en)-1)]
		}
		return en[s.Tape.Choose(len(en))]
	case SRunToBlock:
		if curEnabled {
			return cur
		}
		return en[s.Tape.Choose(len(en))]
	case SPCT:
		for _, cp := range s.changePoints {
			if cp == s.Steps && cur != nil {
				cur.prio = s.lowPrio
				s.lowPrio--
				s.Faults.Inc("pct_priority_change")
			}
		}
		best := en[0]
		for _, t := range en[1:] {
			if t.prio > best.prio {
				best = t
			}
		}
		return best
	case SStarve:
		if s.Steps >= s.starveFrom && s.Steps < s.starveFrom+s.starveLen {
			var rest []*Task
			for _, t := range en {
				if t.ID != s.victim {
					rest = append(rest, t)
				}
			}
			if len(rest) > 0 && len(rest) < len(en) {
				s.Faults.Inc("starved_step")
				if s.tasks[s.victim].holding > 0 {
					s.Faults.Inc("starved_lock_holder_step")
				}
				en = rest
			}
		}
		if len(en) == 1 {
			return en[0]
		}
		return en[s.Tape.Choose(len(en))]
	}
	return en[0]
}

// width is the number of task slots in use in the current run: vector clocks are allocated
// with room for every goroutine the code under test may start, but only this prefix is live.
var width int

// JoinVC merges src into dst.
func JoinVC(dst, src []uint32) {
	n := width
	if len(src) < n {
		n = len(src)
	}
	if len(dst) < n {
		n = len(dst)
	}
	for i := 0; i < n; i++ {
		if src[i] > dst[i] {
			dst[i] = src[i]
		}
	}
}
