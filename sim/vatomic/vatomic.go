// Package vatomic is the drop-in stand-in for sync/atomic inside a simulated run. Every
// operation is a preemption point, executes atomically, and synchronizes with every earlier
// atomic operation on the same variable (Go's memory model makes atomics sequentially
// consistent; taking all of them as release+acquire on the variable is a conservative
// superset of "observed by": it can hide a race, never invent one).
package vatomic

import (
	"unsafe"

	"go.lstv.dev/util/internal/vsim/sched"
	"go.lstv.dev/util/internal/vsim/vrace"
)

type cell struct {
	gen uint64
	id  int
	vc  []uint32
	// spin detection: consecutive loads of this variable by the same task
	loadTask   int
	loadStreak int
}

// Ops counts atomic operations inside runs (probe).
var Ops int64

func (c *cell) op(addr uintptr, write bool) {
	s := sched.Cur
	if s == nil || s.Aborted() {
		return
	}
	if c.gen != s.Gen {
		c.gen = s.Gen
		c.id = s.NewObjID()
		c.vc = make([]uint32, s.NumTasks())
		c.loadTask, c.loadStreak = 0, 0 // nothing of an earlier run may reach into this one
	}
	Ops++
	if me := s.CurTask(); !write && c.loadTask == me.ID+1 {
		c.loadStreak++
		if c.loadStreak >= 2 {
			// polling a flag: tell the unfair strategies not to starve whoever will set it
			s.YieldHint()
		}
	} else if !write {
		c.loadTask, c.loadStreak = me.ID+1, 0
	} else {
		c.loadTask, c.loadStreak = 0, 0
	}
	s.Yield(sched.KAtomic, c.id)
	if s.Aborted() {
		return
	}
	if addr != 0 {
		vrace.Atomic(s, addr, write)
		if s.Aborted() {
			return
		}
	}
	me := s.CurTask()
	sched.JoinVC(me.VC, c.vc)
	sched.JoinVC(c.vc, me.VC)
	me.VC[me.ID]++
}

// post is the preemption point after the effect of a write: what a store publishes may be
// acted upon before the storing task's next statement runs.
func post() {
	if s := sched.Cur; s != nil && !s.Aborted() {
		s.Yield(sched.KAtomic, 0)
	}
}

// cells for the function forms, keyed by address (looked up, never iterated)
var cells = map[uintptr]*cell{}

func at(p unsafe.Pointer) { atw(p, true) }

func atr(p unsafe.Pointer) { atw(p, false) }

func atw(p unsafe.Pointer, write bool) {
	a := uintptr(p)
	c := cells[a]
	if c == nil {
		c = &cell{}
		cells[a] = c
	}
	c.op(a, write)
}

// ---- typed values

// Int32 is atomic.Int32.
type Int32 struct {
	c cell
	v int32
}

func (x *Int32) Load() int32        { x.c.op(0, false); return x.v }
func (x *Int32) Store(v int32)      { x.c.op(0, true); defer post(); x.v = v }
func (x *Int32) Swap(v int32) int32 { x.c.op(0, true); defer post(); o := x.v; x.v = v; return o }
func (x *Int32) Add(d int32) int32  { x.c.op(0, true); defer post(); x.v += d; return x.v }
func (x *Int32) CompareAndSwap(o, n int32) bool {
	x.c.op(0, true)
	defer post()
	if x.v == o {
		x.v = n
		return true
	}
	return false
}

// Int64 is atomic.Int64.
type Int64 struct {
	c cell
	v int64
}

func (x *Int64) Load() int64        { x.c.op(0, false); return x.v }
func (x *Int64) Store(v int64)      { x.c.op(0, true); defer post(); x.v = v }
func (x *Int64) Swap(v int64) int64 { x.c.op(0, true); defer post(); o := x.v; x.v = v; return o }
func (x *Int64) Add(d int64) int64  { x.c.op(0, true); defer post(); x.v += d; return x.v }
func (x *Int64) CompareAndSwap(o, n int64) bool {
	x.c.op(0, true)
	defer post()
	if x.v == o {
		x.v = n
		return true
	}
	return false
}

// Uint32 is atomic.Uint32.
type Uint32 struct {
	c cell
	v uint32
}

func (x *Uint32) Load() uint32         { x.c.op(0, false); return x.v }
func (x *Uint32) Store(v uint32)       { x.c.op(0, true); defer post(); x.v = v }
func (x *Uint32) Swap(v uint32) uint32 { x.c.op(0, true); defer post(); o := x.v; x.v = v; return o }
func (x *Uint32) Add(d uint32) uint32  { x.c.op(0, true); defer post(); x.v += d; return x.v }
func (x *Uint32) CompareAndSwap(o, n uint32) bool {
	x.c.op(0, true)
	defer post()
	if x.v == o {
		x.v = n
		return true
	}
	return false
}

// Uint64 is atomic.Uint64.
type Uint64 struct {
	c cell
	v uint64
}

func (x *Uint64) Load() uint64         { x.c.op(0, false); return x.v }
func (x *Uint64) Store(v uint64)       { x.c.op(0, true); defer post(); x.v = v }
func (x *Uint64) Swap(v uint64) uint64 { x.c.op(0, true); defer post(); o := x.v; x.v = v; return o }
func (x *Uint64) Add(d uint64) uint64  { x.c.op(0, true); defer post(); x.v += d; return x.v }
func (x *Uint64) CompareAndSwap(o, n uint64) bool {
	x.c.op(0, true)
	defer post()
	if x.v == o {
		x.v = n
		return true
	}
	return false
}

// Uintptr is atomic.Uintptr.
type Uintptr struct {
	c cell
	v uintptr
}

func (x *Uintptr) Load() uintptr          { x.c.op(0, false); return x.v }
func (x *Uintptr) Store(v uintptr)        { x.c.op(0, true); defer post(); x.v = v }
func (x *Uintptr) Swap(v uintptr) uintptr { x.c.op(0, true); defer post(); o := x.v; x.v = v; return o }
func (x *Uintptr) Add(d uintptr) uintptr  { x.c.op(0, true); defer post(); x.v += d; return x.v }
func (x *Uintptr) CompareAndSwap(o, n uintptr) bool {
	x.c.op(0, true)
	defer post()
	if x.v == o {
		x.v = n
		return true
	}
	return false
}

// Bool is atomic.Bool.
type Bool struct {
	c cell
	v bool
}

func (x *Bool) Load() bool       { x.c.op(0, false); return x.v }
func (x *Bool) Store(v bool)     { x.c.op(0, true); defer post(); x.v = v }
func (x *Bool) Swap(v bool) bool { x.c.op(0, true); defer post(); o := x.v; x.v = v; return o }
func (x *Bool) CompareAndSwap(o, n bool) bool {
	x.c.op(0, true)
	defer post()
	if x.v == o {
		x.v = n
		return true
	}
	return false
}

// Pointer is atomic.Pointer[T].
type Pointer[T any] struct {
	c cell
	v *T
}

func (x *Pointer[T]) Load() *T     { x.c.op(0, false); return x.v }
func (x *Pointer[T]) Store(v *T)   { x.c.op(0, true); defer post(); x.v = v }
func (x *Pointer[T]) Swap(v *T) *T { x.c.op(0, true); defer post(); o := x.v; x.v = v; return o }
func (x *Pointer[T]) CompareAndSwap(o, n *T) bool {
	x.c.op(0, true)
	defer post()
	if x.v == o {
		x.v = n
		return true
	}
	return false
}

// Value is atomic.Value.
type Value struct {
	c cell
	v interface{}
}

func (x *Value) Load() interface{} { x.c.op(0, true); defer post(); return x.v }
func (x *Value) Store(v interface{}) {
	if v == nil {
		panic("sync/atomic: store of nil value into Value")
	}
	x.c.op(0, true)
	defer post()
	x.v = v
}
func (x *Value) Swap(v interface{}) interface{} {
	x.c.op(0, true)
	defer post()
	o := x.v
	x.v = v
	return o
}
func (x *Value) CompareAndSwap(o, n interface{}) bool {
	x.c.op(0, true)
	defer post()
	if x.v == o {
		x.v = n
		return true
	}
	return false
}

// ---- function forms

func LoadInt32(p *int32) int32       { atr(unsafe.Pointer(p)); return *p }
func LoadInt64(p *int64) int64       { atr(unsafe.Pointer(p)); return *p }
func LoadUint32(p *uint32) uint32    { atr(unsafe.Pointer(p)); return *p }
func LoadUint64(p *uint64) uint64    { atr(unsafe.Pointer(p)); return *p }
func LoadUintptr(p *uintptr) uintptr { atr(unsafe.Pointer(p)); return *p }
func LoadPointer(p *unsafe.Pointer) unsafe.Pointer {
	atr(unsafe.Pointer(p))
	return *p
}
func StoreInt32(p *int32, v int32)       { at(unsafe.Pointer(p)); defer post(); *p = v }
func StoreInt64(p *int64, v int64)       { at(unsafe.Pointer(p)); defer post(); *p = v }
func StoreUint32(p *uint32, v uint32)    { at(unsafe.Pointer(p)); defer post(); *p = v }
func StoreUint64(p *uint64, v uint64)    { at(unsafe.Pointer(p)); defer post(); *p = v }
func StoreUintptr(p *uintptr, v uintptr) { at(unsafe.Pointer(p)); defer post(); *p = v }
func StorePointer(p *unsafe.Pointer, v unsafe.Pointer) {
	at(unsafe.Pointer(p))
	defer post()
	*p = v
}
func AddInt32(p *int32, d int32) int32     { at(unsafe.Pointer(p)); defer post(); *p += d; return *p }
func AddInt64(p *int64, d int64) int64     { at(unsafe.Pointer(p)); defer post(); *p += d; return *p }
func AddUint32(p *uint32, d uint32) uint32 { at(unsafe.Pointer(p)); defer post(); *p += d; return *p }
func AddUint64(p *uint64, d uint64) uint64 { at(unsafe.Pointer(p)); defer post(); *p += d; return *p }
func AddUintptr(p *uintptr, d uintptr) uintptr {
	at(unsafe.Pointer(p))
	defer post()
	*p += d
	return *p
}
func SwapInt32(p *int32, v int32) int32 {
	at(unsafe.Pointer(p))
	defer post()
	o := *p
	*p = v
	return o
}
func SwapInt64(p *int64, v int64) int64 {
	at(unsafe.Pointer(p))
	defer post()
	o := *p
	*p = v
	return o
}
func SwapUint32(p *uint32, v uint32) uint32 {
	at(unsafe.Pointer(p))
	defer post()
	o := *p
	*p = v
	return o
}
func SwapUint64(p *uint64, v uint64) uint64 {
	at(unsafe.Pointer(p))
	defer post()
	o := *p
	*p = v
	return o
}
func SwapUintptr(p *uintptr, v uintptr) uintptr {
	at(unsafe.Pointer(p))
	defer post()
	o := *p
	*p = v
	return o
}
func SwapPointer(p *unsafe.Pointer, v unsafe.Pointer) unsafe.Pointer {
	at(unsafe.Pointer(p))
	defer post()
	o := *p
	*p = v
	return o
}
func CompareAndSwapInt32(p *int32, o, n int32) bool {
	at(unsafe.Pointer(p))
	defer post()
	if *p == o {
		*p = n
		return true
	}
	return false
}
func CompareAndSwapInt64(p *int64, o, n int64) bool {
	at(unsafe.Pointer(p))
	defer post()
	if *p == o {
		*p = n
		return true
	}
	return false
}
func CompareAndSwapUint32(p *uint32, o, n uint32) bool {
	at(unsafe.Pointer(p))
	defer post()
	if *p == o {
		*p = n
		return true
	}
	return false
}
func CompareAndSwapUint64(p *uint64, o, n uint64) bool {
	at(unsafe.Pointer(p))
	defer post()
	if *p == o {
		*p = n
		return true
	}
	return false
}
func CompareAndSwapUintptr(p *uintptr, o, n uintptr) bool {
	at(unsafe.Pointer(p))
	defer post()
	if *p == o {
		*p = n
		return true
	}
	return false
}
func CompareAndSwapPointer(p *unsafe.Pointer, o, n unsafe.Pointer) bool {
	at(unsafe.Pointer(p))
	defer post()
	if *p == o {
		*p = n
		return true
	}
	return false
}

// And / Or (Go 1.23): return the old value.
func AndInt32(p *int32, m int32) int32 {
	at(unsafe.Pointer(p))
	defer post()
	o := *p
	*p &= m
	return o
}
func AndInt64(p *int64, m int64) int64 {
	at(unsafe.Pointer(p))
	defer post()
	o := *p
	*p &= m
	return o
}
func AndUint32(p *uint32, m uint32) uint32 {
	at(unsafe.Pointer(p))
	defer post()
	o := *p
	*p &= m
	return o
}
func AndUint64(p *uint64, m uint64) uint64 {
	at(unsafe.Pointer(p))
	defer post()
	o := *p
	*p &= m
	return o
}
func AndUintptr(p *uintptr, m uintptr) uintptr {
	at(unsafe.Pointer(p))
	defer post()
	o := *p
	*p &= m
	return o
}
func OrInt32(p *int32, m int32) int32 {
	at(unsafe.Pointer(p))
	defer post()
	o := *p
	*p |= m
	return o
}
func OrInt64(p *int64, m int64) int64 {
	at(unsafe.Pointer(p))
	defer post()
	o := *p
	*p |= m
	return o
}
func OrUint32(p *uint32, m uint32) uint32 {
	at(unsafe.Pointer(p))
	defer post()
	o := *p
	*p |= m
	return o
}
func OrUint64(p *uint64, m uint64) uint64 {
	at(unsafe.Pointer(p))
	defer post()
	o := *p
	*p |= m
	return o
}
func OrUintptr(p *uintptr, m uintptr) uintptr {
	at(unsafe.Pointer(p))
	defer post()
	o := *p
	*p |= m
	return o
}

func (x *Int32) And(m int32) int32       { x.c.op(0, true); defer post(); o := x.v; x.v &= m; return o }
func (x *Int32) Or(m int32) int32        { x.c.op(0, true); defer post(); o := x.v; x.v |= m; return o }
func (x *Int64) And(m int64) int64       { x.c.op(0, true); defer post(); o := x.v; x.v &= m; return o }
func (x *Int64) Or(m int64) int64        { x.c.op(0, true); defer post(); o := x.v; x.v |= m; return o }
func (x *Uint32) And(m uint32) uint32    { x.c.op(0, true); defer post(); o := x.v; x.v &= m; return o }
func (x *Uint32) Or(m uint32) uint32     { x.c.op(0, true); defer post(); o := x.v; x.v |= m; return o }
func (x *Uint64) And(m uint64) uint64    { x.c.op(0, true); defer post(); o := x.v; x.v &= m; return o }
func (x *Uint64) Or(m uint64) uint64     { x.c.op(0, true); defer post(); o := x.v; x.v |= m; return o }
func (x *Uintptr) And(m uintptr) uintptr { x.c.op(0, true); defer post(); o := x.v; x.v &= m; return o }
func (x *Uintptr) Or(m uintptr) uintptr  { x.c.op(0, true); defer post(); o := x.v; x.v |= m; return o }
