// Package core holds the parts of the simulator every property shares: the choice tape (the
// single source of every decision of a run), the shrinker, the replay file format, the
// worker loop and the evidence writer.
//
// The sources live in /verif/sim and are copied into a scratch copy of the repository under
// internal/vsim by tools/mkscratch.sh; they are written in the Go 1.18 dialect because they
// are compiled as part of the go.lstv.dev/util module.
package core

// Tape is the only source of nondeterminism of a simulated run. In generate mode every
// Choose draws from a splitmix64 stream and records the reduced choice; in replay mode the
// recorded choices are fed back and, past the end, every choice is 0. All generators are
// written so that 0 is the simplest choice (same task, no fault, shortest input).
type Tape struct {
	state   uint64
	replay  bool
	in      []uint64
	pos     int
	Rec     []uint64
	Overrun int // choices requested past the end of a replayed tape
}

// NewTape returns a generating tape.
func NewTape(seed uint64) *Tape {
	return &Tape{state: seed}
}

// ReplayTape returns a tape that feeds back the recorded choices.
func ReplayTape(words []uint64) *Tape {
	return &Tape{replay: true, in: words}
}

func splitmix(x *uint64) uint64 {
	*x += 0x9e3779b97f4a7c15
	z := *x
	z = (z ^ (z >> 30)) * 0xbf58476d1ce4e5b9
	z = (z ^ (z >> 27)) * 0x94d049bb133111eb
	return z ^ (z >> 31)
}

// Mix derives a run seed from the batch seed, the property and the run index.
func Mix(seed uint64, prop string, run uint64) uint64 {
	x := seed ^ 0x6a09e667f3bcc909
	for i := 0; i < len(prop); i++ {
		x = (x ^ uint64(prop[i])) * 0x100000001b3
	}
	x ^= run * 0x9e3779b97f4a7c15
	splitmix(&x)
	return splitmix(&x)
}

// Choose returns a value in [0, n). n < 1 is treated as 1.
func (t *Tape) Choose(n int) int {
	if n <= 1 {
		// still consumes a slot so that tapes stay aligned when n varies between 1 and more
		t.word(1)
		return 0
	}
	return int(t.word(uint64(n)))
}

// Bool returns true with probability num/den (false is the simple choice).
func (t *Tape) Bool(num, den int) bool {
	return t.Choose(den) >= den-num
}

// Word returns a full 64-bit word (0 is the simple choice).
func (t *Tape) Word() uint64 {
	return t.word(0)
}

// Range returns a value in [lo, hi].
func (t *Tape) Range(lo, hi int) int {
	if hi <= lo {
		t.word(1)
		return lo
	}
	return lo + t.Choose(hi-lo+1)
}

func (t *Tape) word(n uint64) uint64 {
	var v uint64
	if t.replay {
		if t.pos < len(t.in) {
			v = t.in[t.pos]
		} else {
			t.Overrun++
		}
		t.pos++
		if n != 0 {
			v %= n
		}
	} else {
		v = splitmix(&t.state)
		if n != 0 {
			v %= n
		}
	}
	t.Rec = append(t.Rec, v)
	return v
}

// Used returns the number of choices consumed so far.
func (t *Tape) Used() int { return len(t.Rec) }

// Hash64 is an order-sensitive FNV-1a style accumulator used for trace hashes. It never
// touches the tape or a clock.
type Hash64 uint64

// NewHash returns the offset basis.
func NewHash() Hash64 { return 0xcbf29ce484222325 }

// Add mixes one word.
func (h *Hash64) Add(v uint64) {
	x := uint64(*h)
	for i := 0; i < 8; i++ {
		x ^= v & 0xff
		x *= 0x100000001b3
		v >>= 8
	}
	*h = Hash64(x)
}

// AddString mixes a string.
func (h *Hash64) AddString(s string) {
	x := uint64(*h)
	for i := 0; i < len(s); i++ {
		x ^= uint64(s[i])
		x *= 0x100000001b3
	}
	x ^= 0xff
	x *= 0x100000001b3
	*h = Hash64(x)
}
