package core

import (
	"bufio"
	"encoding/json"
	"fmt"
	"os"
	"strings"
)

// ReplayFile is the on-disk form of one failing run: the minimised tape reproduces it
// exactly in a fresh process.
type ReplayFile struct {
	Property   string     `json:"property"`
	Format     int        `json:"format"`
	VerifSeed  uint64     `json:"verif_seed"`
	RunIndex   uint64     `json:"run_index"`
	RunSeed    uint64     `json:"run_seed"`
	Tier       string     `json:"tier"`
	Tape       []uint64   `json:"tape"`
	EnumIndex  *int       `json:"enum_index,omitempty"` // set for a failure of the enumerated part (no tape)
	OrigLen    int        `json:"original_tape_len"`
	ShrinkExec int        `json:"shrink_executions"`
	Violation  *Violation `json:"violation"`
	Trace      []string   `json:"trace"`
	TraceHash  string     `json:"trace_hash"`
	Note       string     `json:"note,omitempty"`
	// Flaky is set when the violation did not reproduce on every re-execution of its own
	// tape: the code under test is itself nondeterministic (e.g. it ranges over a map). The
	// replay command then retries and accepts the same invariant without comparing traces.
	Flaky bool `json:"flaky,omitempty"`
}

// WriteJSON writes v atomically enough for our purposes (temp + rename).
func WriteJSON(path string, v interface{}) error {
	b, err := json.MarshalIndent(v, "", " ")
	if err != nil {
		return err
	}
	tmp := path + ".tmp"
	if err := os.WriteFile(tmp, append(b, '\n'), 0o644); err != nil {
		return err
	}
	return os.Rename(tmp, path)
}

// ReadReplay loads a replay file.
func ReadReplay(path string) (*ReplayFile, error) {
	b, err := os.ReadFile(path)
	if err != nil {
		return nil, err
	}
	rf := &ReplayFile{}
	if err := json.Unmarshal(b, rf); err != nil {
		return nil, err
	}
	return rf, nil
}

// Finding is one line of the known-findings file.
//
//	finding: property=<id> class=<invariant> key=<key> <what fails>
//	fixed:   property=<id> <commit> <what failed>
//
// Only "finding:" lines suppress anything.
type Finding struct {
	Property, Class, Key, Text string
}

// LoadFindings parses the known-findings file; a missing file is an empty list.
func LoadFindings(path string) ([]Finding, error) {
	f, err := os.Open(path)
	if err != nil {
		if os.IsNotExist(err) {
			return nil, nil
		}
		return nil, err
	}
	defer f.Close()
	var out []Finding
	sc := bufio.NewScanner(f)
	for sc.Scan() {
		line := strings.TrimSpace(sc.Text())
		if !strings.HasPrefix(line, "finding:") {
			continue
		}
		rest := strings.TrimSpace(strings.TrimPrefix(line, "finding:"))
		fd := Finding{}
		fields := strings.Fields(rest)
		n := 0
		for _, fl := range fields {
			switch {
			case strings.HasPrefix(fl, "property=") && fd.Property == "":
				fd.Property = strings.TrimPrefix(fl, "property=")
				n++
			case strings.HasPrefix(fl, "class=") && fd.Class == "":
				fd.Class = strings.TrimPrefix(fl, "class=")
				n++
			case strings.HasPrefix(fl, "key=") && fd.Key == "":
				fd.Key = strings.TrimPrefix(fl, "key=")
				n++
			}
			if n == 3 {
				break
			}
		}
		if fd.Property == "" || fd.Class == "" || fd.Key == "" {
			return nil, fmt.Errorf("known-findings: malformed line %q", line)
		}
		fd.Text = rest
		out = append(out, fd)
	}
	return out, sc.Err()
}

// MatchFinding reports whether v is a listed finding.
func MatchFinding(fs []Finding, v *Violation) *Finding {
	for i := range fs {
		if fs[i].Property == v.Property && fs[i].Class == v.Invariant && fs[i].Key == v.Key {
			return &fs[i]
		}
	}
	return nil
}
