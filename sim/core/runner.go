package core

import (
	"encoding/json"
	"fmt"
	"os"
	"os/exec"
	"os/signal"
	"path/filepath"
	"runtime"
	"sort"
	"strconv"
	"strings"
	"sync"
	"sync/atomic"
	"syscall"
	"time"
)

// Partial is what one worker process hands back to the orchestrator.
type Partial struct {
	Shard         int                      `json:"shard"`
	Runs          int64                    `json:"runs"`
	NonTrivial    int64                    `json:"nontrivial"`
	Steps         int64                    `json:"steps"`
	SimTimeNs     int64                    `json:"sim_time_ns"`
	Faults        Counters                 `json:"faults"`
	Probes        Counters                 `json:"probes"`
	Strategies    Counters                 `json:"strategies"`
	Extra         Counters                 `json:"extra"`
	Classes       []uint64                 `json:"classes"`
	ClassesCapped bool                     `json:"classes_capped"`
	Samples       []map[string]interface{} `json:"samples"`
	KnownHits     map[string]int64         `json:"known_hits"`
	Candidate     string                   `json:"candidate"`
	Infra         string                   `json:"infra"`
	WallS         float64                  `json:"wall_s"`
	FirstRun      uint64                   `json:"first_run"`
	LastRun       uint64                   `json:"last_run"`
	StoppedEarly  bool                     `json:"stopped_early"`
	Cancelled     bool                     `json:"cancelled,omitempty"`
	EnumDone      int64                    `json:"enum_done"`
}

const classCap = 1 << 19

// Env describes where things live; filled from environment variables by the command.
type Env struct {
	Home     string // /verif
	Seed     uint64 // VERIF_SEED
	Tier     string
	Workers  int
	Self     string // path of this binary
	Scratch  string // writable scratch dir for partials
	Findings []Finding
}

// LoadEnv reads VERIF_HOME, VERIF_SEED, VERIF_WORKERS, VERIF_SCRATCH.
func LoadEnv(tier string) (*Env, error) {
	e := &Env{Tier: tier}
	e.Home = os.Getenv("VERIF_HOME")
	if e.Home == "" {
		e.Home = "/verif"
	}
	if s := os.Getenv("VERIF_SEED"); s != "" {
		v, err := strconv.ParseUint(s, 10, 64)
		if err != nil {
			iv, err2 := strconv.ParseInt(s, 10, 64)
			if err2 != nil {
				return nil, fmt.Errorf("VERIF_SEED=%q is not an integer", s)
			}
			v = uint64(iv)
		}
		e.Seed = v
	}
	e.Workers = 16
	if s := os.Getenv("VERIF_WORKERS"); s != "" {
		if v, err := strconv.Atoi(s); err == nil && v > 0 {
			e.Workers = v
		}
	}
	self, err := os.Executable()
	if err != nil {
		return nil, err
	}
	e.Self = self
	e.Scratch = os.Getenv("VERIF_SCRATCH")
	if e.Scratch == "" {
		e.Scratch = filepath.Dir(self)
	}
	fs, err := LoadFindings(filepath.Join(e.Home, "known-findings.txt"))
	if err != nil {
		return nil, err
	}
	e.Findings = fs
	return e, nil
}

func (e *Env) isKnown(v *Violation) bool { return MatchFinding(e.Findings, v) != nil }

// ExecTape runs one tape and recovers harness panics into Infra.
func ExecTape(p Property, t *Tape, o RunOpts) (res *Result) {
	defer func() {
		if r := recover(); r != nil {
			res = NewResult()
			res.Infra = fmt.Sprintf("harness panic: %v", r)
		}
	}()
	return p.Run(t, o)
}

func classOf(res *Result) string {
	if res == nil || res.Violation == nil {
		return ""
	}
	return res.Violation.Property + "/" + res.Violation.Invariant
}

// Worker runs shard `shard` of the batch and writes a Partial to out. Exit code: 0 clean,
// 1 candidate violation written, 2 infrastructure trouble.
func Worker(p Property, e *Env, shard, shards int, out string) int {
	start := time.Now()
	part := &Partial{Shard: shard, Faults: Counters{}, Probes: Counters{}, Strategies: Counters{}, Extra: Counters{}, KnownHits: map[string]int64{}}
	classes := map[uint64]struct{}{}
	total := p.Budget(e.Tier)
	if s := os.Getenv("VERIF_RUNS"); s != "" {
		if v, err := strconv.Atoi(s); err == nil && v > 0 {
			total = v
		}
	}
	// soft wall-clock bound: stop early (and say so) rather than run away
	soft := 40 * time.Minute
	if e.Tier == "quick" {
		soft = 4 * time.Minute
	}
	if s := os.Getenv("VERIF_SOFT_DEADLINE_S"); s != "" {
		if v, err := strconv.Atoi(s); err == nil && v > 0 {
			soft = time.Duration(v) * time.Second
		}
	}
	opts := RunOpts{Tier: e.Tier, IsKnown: e.isKnown}
	// the orchestrator asks the remaining workers to wind up once another worker has a
	// candidate: the verdict of the check is already decided then (real signal, never read
	// inside a run, so it cannot influence any execution)
	var cancelled int32
	sigc := make(chan os.Signal, 1)
	signal.Notify(sigc, syscall.SIGTERM)
	go func() {
		<-sigc
		atomic.StoreInt32(&cancelled, 1)
	}()
	finish := func(code int) int {
		part.WallS = time.Since(start).Seconds()
		part.Classes = make([]uint64, 0, len(classes))
		for c := range classes {
			part.Classes = append(part.Classes, c)
		}
		sort.Slice(part.Classes, func(i, j int) bool { return part.Classes[i] < part.Classes[j] })
		if err := WriteJSON(out, part); err != nil {
			fmt.Fprintf(os.Stderr, "worker %d: %v\n", shard, err)
			return 2
		}
		return code
	}
	accumulate := func(res *Result, sample map[string]interface{}) {
		part.Steps += res.Steps
		part.SimTimeNs += res.SimTimeNs
		part.Faults.Merge(res.Faults)
		part.Probes.Merge(res.Probes)
		part.Extra.Merge(res.Extra)
		if res.Strategy != "" {
			part.Strategies.Inc(res.Strategy)
		}
		if res.NonTrivial {
			part.NonTrivial++
			cl := res.Classes
			if cl == nil {
				cl = []uint64{res.Class}
			}
			for _, c := range cl {
				if len(classes) < classCap {
					classes[c] = struct{}{}
				} else if _, ok := classes[c]; !ok {
					part.ClassesCapped = true
				}
			}
			if sample != nil && res.Trace != nil {
				sample["trace_hash"] = fmt.Sprintf("%016x", res.TraceHash)
				sample["trace"] = capTrace(res.Trace, 120)
				sample["strategy"] = res.Strategy
				part.Samples = append(part.Samples, sample)
			}
		}
		for _, kv := range res.Known {
			if f := MatchFinding(e.Findings, kv); f != nil {
				part.KnownHits[f.Text]++
			}
		}
	}
	// enumerated part: walked completely, sharded
	enumN := p.EnumSize(e.Tier)
	for i := shard; i < enumN; i += shards {
		o := opts
		o.KeepTrace = shard == 0 && len(part.Samples) < 2 && i > enumN/3
		res := p.RunEnum(i, o)
		if res == nil || res.Skipped {
			if res != nil {
				part.Extra.Merge(res.Extra)
			}
			continue
		}
		if res.Infra != "" {
			part.Infra = fmt.Sprintf("enumeration slot %d: %s", i, res.Infra)
			return finish(2)
		}
		part.EnumDone++
		accumulate(res, map[string]interface{}{"enum_index": i})
		if v := res.Violation; v != nil {
			if f := MatchFinding(e.Findings, v); f != nil {
				part.KnownHits[f.Text]++
				continue
			}
			o2 := opts
			o2.KeepTrace = true
			fin := p.RunEnum(i, o2)
			idx := i
			rf := &ReplayFile{Property: p.ID(), Format: 1, VerifSeed: e.Seed, Tier: e.Tier, EnumIndex: &idx, Violation: fin.Violation,
				Trace: capTrace(fin.Trace, 400), TraceHash: fmt.Sprintf("%016x", fin.TraceHash), Note: "failure of the enumerated part: replay re-evaluates this slot"}
			dir := filepath.Join(e.Home, "replays")
			os.MkdirAll(dir, 0o755)
			path := filepath.Join(dir, fmt.Sprintf("%s-enum-%d.json", p.ID(), i))
			if err := WriteJSON(path, rf); err != nil {
				part.Infra = err.Error()
				return finish(2)
			}
			part.Candidate = path
			return finish(1)
		}
	}
	first := true
	for i := shard; i < total; i += shards {
		if i%64 == shard%64 && time.Since(start) > soft {
			part.StoppedEarly = true
			break
		}
		if atomic.LoadInt32(&cancelled) != 0 {
			part.StoppedEarly = true
			part.Cancelled = true
			break
		}
		run := uint64(i)
		if first {
			part.FirstRun = run
			first = false
		}
		part.LastRun = run
		seed := Mix(e.Seed, p.ID(), run)
		tape := NewTape(seed)
		o := opts
		o.KeepTrace = len(part.Samples) < 3 && shard == 0
		res := ExecTape(p, tape, o)
		if res.Infra != "" {
			part.Infra = fmt.Sprintf("run %d seed %d: %s", run, seed, res.Infra)
			return finish(2)
		}
		part.Runs++
		var sample map[string]interface{}
		if o.KeepTrace {
			sample = map[string]interface{}{"run_index": run, "run_seed": seed}
		}
		accumulate(res, sample)
		if v := res.Violation; v != nil {
			if f := MatchFinding(e.Findings, v); f != nil {
				part.KnownHits[f.Text]++
				continue
			}
			// shrink, then write the replay file
			want := classOf(res)
			orig := append([]uint64(nil), tape.Rec...)
			runc := func(w []uint64) string {
				r := ExecTape(p, ReplayTape(w), opts)
				if r.Infra != "" {
					return ""
				}
				return classOf(r)
			}
			maxExec, budget := 3000, 120*time.Second
			if e.Tier == "quick" {
				maxExec, budget = 1500, 45*time.Second
			}
			best, execs := Shrink(orig, want, runc, maxExec, budget)
			o2 := opts
			o2.KeepTrace = true
			fin := ExecTape(p, ReplayTape(best), o2)
			flaky := false
			if classOf(fin) != want {
				// shrinking lost it: fall back to the original tape
				best = orig
				fin = ExecTape(p, ReplayTape(best), o2)
				if classOf(fin) != want {
					// not even its own tape reproduces it at once: either the harness is
					// nondeterministic (the self-test says it is not) or the code under test is.
					// Retry; a violation that shows up again is reported as flaky.
					for try := 0; try < 12 && classOf(fin) == ""; try++ {
						fin = ExecTape(p, ReplayTape(best), o2)
					}
					if classOf(fin) == "" {
						part.Infra = fmt.Sprintf("run %d seed %d: violation %s does not reproduce from its own tape in-process in 14 attempts", run, seed, want)
						return finish(2)
					}
					flaky = true
				}
			}
			if MatchFinding(e.Findings, fin.Violation) != nil {
				// the minimised form is a listed finding after all
				part.KnownHits[MatchFinding(e.Findings, fin.Violation).Text]++
				continue
			}
			rf := &ReplayFile{
				Property: p.ID(), Format: 1, VerifSeed: e.Seed, RunIndex: run, RunSeed: seed, Tier: e.Tier,
				Tape: best, OrigLen: len(orig), ShrinkExec: execs, Violation: fin.Violation,
				Trace: capTrace(fin.Trace, 400), TraceHash: fmt.Sprintf("%016x", fin.TraceHash), Flaky: flaky,
			}
			if flaky {
				rf.Note = "the violation does not reproduce on every execution of this tape: the code under test behaves nondeterministically on this history (for instance by ranging over a map); replay retries and compares the invariant only"
			}
			dir := filepath.Join(e.Home, "replays")
			os.MkdirAll(dir, 0o755)
			path := filepath.Join(dir, fmt.Sprintf("%s-%d-%d.json", p.ID(), e.Seed, run))
			if err := WriteJSON(path, rf); err != nil {
				part.Infra = err.Error()
				return finish(2)
			}
			part.Candidate = path
			return finish(1)
		}
	}
	return finish(0)
}

func capTrace(t []string, n int) []string {
	if len(t) <= n {
		return t
	}
	out := append([]string(nil), t[:n/2]...)
	out = append(out, fmt.Sprintf("... %d events elided ...", len(t)-n))
	return append(out, t[len(t)-n/2:]...)
}

// Replay re-executes a replay file in this (fresh) process. Exit 1 + VIOLATION line when it
// reproduces (same class and same trace hash), 2 otherwise.
func Replay(p Property, e *Env, path string) int {
	rf, err := ReadReplay(path)
	if err != nil {
		fmt.Fprintf(os.Stderr, "replay: %v\n", err)
		return 2
	}
	if rf.Property != p.ID() {
		fmt.Fprintf(os.Stderr, "replay: file is for %s\n", rf.Property)
		return 2
	}
	var res *Result
	if rf.EnumIndex != nil {
		res = p.RunEnum(*rf.EnumIndex, RunOpts{Tier: rf.Tier, KeepTrace: true})
		if res == nil {
			res = NewResult()
		}
	} else {
		res = ExecTape(p, ReplayTape(rf.Tape), RunOpts{Tier: rf.Tier, KeepTrace: true})
		if rf.Flaky {
			for try := 0; try < 40 && res.Infra == "" && res.Violation == nil; try++ {
				res = ExecTape(p, ReplayTape(rf.Tape), RunOpts{Tier: rf.Tier, KeepTrace: true})
			}
			if res.Violation != nil {
				fmt.Println("replay: flaky violation (the code under test is nondeterministic on this history); reproduced by retrying, traces are not compared")
				rf.TraceHash = ""
				if rf.Violation != nil {
					rf.Violation.Invariant = res.Violation.Invariant
				}
			}
		}
	}
	if res.Infra != "" {
		fmt.Fprintf(os.Stderr, "replay: infra: %s\n", res.Infra)
		return 2
	}
	if res.Violation == nil {
		fmt.Printf("replay: no violation reproduced from %s\n", path)
		return 2
	}
	for _, l := range res.Trace {
		fmt.Println("  " + l)
	}
	got := fmt.Sprintf("%016x", res.TraceHash)
	if rf.Violation != nil && res.Violation.Invariant != rf.Violation.Invariant {
		fmt.Printf("replay: different invariant: got %s want %s\n", res.Violation.Invariant, rf.Violation.Invariant)
		return 2
	}
	if rf.TraceHash != "" && got != rf.TraceHash {
		fmt.Printf("replay: same invariant but different trace hash: got %s want %s\n", got, rf.TraceHash)
		return 2
	}
	fmt.Printf("replayed: %s\n", res.Violation)
	fmt.Printf("VIOLATION property=%s replay=%s\n", p.ID(), path)
	return 1
}

// TraceRun prints the full trace of one run index (debugging aid).
func TraceRun(p Property, e *Env, i int) int {
	seed := Mix(e.Seed, p.ID(), uint64(i))
	res := ExecTape(p, NewTape(seed), RunOpts{Tier: e.Tier, KeepTrace: true, IsKnown: e.isKnown})
	for _, l := range res.Trace {
		fmt.Println(l)
	}
	fmt.Printf("run %d seed %d steps %d infra=%q violation=%v\n", i, seed, res.Steps, res.Infra, res.Violation)
	return 0
}

// Hashes prints the trace hash of runs [from, from+count) — used by the determinism self-test.
func Hashes(p Property, e *Env, from, count int) int {
	// VERIF_HASH_ORDER: "" = ascending; "rev" = the same runs executed in descending order;
	// "replay" = every run executed twice, the second time from the tape the first one
	// recorded, and the second execution is what is printed. All three must print the same
	// lines: a run's outcome may depend on its tape and on nothing else — not on which runs
	// the process executed before it, and not on whether the tape is generated or fed back.
	order := os.Getenv("VERIF_HASH_ORDER")
	lines := make([]string, count)
	for k := 0; k < count; k++ {
		i := from + k
		if order == "rev" {
			i = from + count - 1 - k
		}
		seed := Mix(e.Seed, p.ID(), uint64(i))
		tape := NewTape(seed)
		res := ExecTape(p, tape, RunOpts{Tier: e.Tier, IsKnown: e.isKnown})
		if order == "replay" && res.Infra == "" {
			res = ExecTape(p, ReplayTape(append([]uint64(nil), tape.Rec...)), RunOpts{Tier: e.Tier, IsKnown: e.isKnown})
		}
		if res.Infra != "" {
			lines[i-from] = fmt.Sprintf("%d infra %s\n", i, res.Infra)
			continue
		}
		v := "-"
		if res.Violation != nil {
			v = res.Violation.Invariant
		}
		lines[i-from] = fmt.Sprintf("%d %016x %d %s\n", i, res.TraceHash, res.Steps, v)
	}
	for _, l := range lines {
		fmt.Print(l)
	}
	return 0
}

// Check is the orchestrator: prelude, determinism self-test, sharded batch, candidate
// verification in a fresh process, evidence. Exit codes 0 / 1 / 2 as in DESIGN §3.8.
func Check(p Property, e *Env) int {
	start := time.Now()
	id := p.ID()
	desc := p.Describe()
	fmt.Printf("check %s tier=%s VERIF_SEED=%d workers=%d\n", id, e.Tier, e.Seed, e.Workers)

	ev := &evidence{Property: id, Tier: e.Tier, Seed: int64(e.Seed), Level: desc.Level}

	// 1. prelude (enumerated parts / static scans)
	pre := p.Prelude(RunOpts{Tier: e.Tier, KeepTrace: false, IsKnown: e.isKnown})
	if pre != nil && pre.Infra != "" {
		fmt.Printf("INFRA %s: prelude: %s\n", id, pre.Infra)
		return 2
	}
	knownHits := map[string]int64{}
	if pre != nil {
		for _, kv := range pre.Known {
			if f := MatchFinding(e.Findings, kv); f != nil {
				knownHits[f.Text]++
			}
		}
	}
	if pre != nil && pre.Violation != nil {
		if f := MatchFinding(e.Findings, pre.Violation); f != nil {
			knownHits[f.Text]++
		} else {
			dir := filepath.Join(e.Home, "replays")
			os.MkdirAll(dir, 0o755)
			path := filepath.Join(dir, fmt.Sprintf("%s-%d-prelude.json", id, e.Seed))
			rf := &ReplayFile{Property: id, Format: 1, VerifSeed: e.Seed, Tier: e.Tier, Violation: pre.Violation,
				Trace: capTrace(pre.Trace, 400), TraceHash: "", Note: "found by the enumerated prelude; `replay` re-runs the prelude"}
			WriteJSON(path, rf)
			fmt.Printf("violation: %s\n", pre.Violation)
			ev.Violations = 1
			writeEvidence(e, ev, desc, pre, nil, start, knownHits, nil)
			fmt.Printf("VIOLATION property=%s replay=%s\n", id, path)
			return 1
		}
	}

	// 2. determinism self-test: same seeds in fresh processes at GOMAXPROCS 1, 4, 16 and once more
	k := 24
	if e.Tier == "thorough" {
		k = 200
	}
	if s := os.Getenv("VERIF_SELFTEST_K"); s != "" {
		if v, err := strconv.Atoi(s); err == nil {
			k = v
		}
	}
	det := map[string]interface{}{"seeds": k, "processes": 0, "mismatches": 0}
	if k > 0 {
		procs := []int{1, 4, 16, 2}
		// the second process executes the runs in descending order, the fourth executes each run
		// twice (generated, then replayed from its own record): a run must depend on its tape only
		orders := map[int]string{1: "", 4: "rev", 16: "", 2: "replay"}
		type hres struct {
			out string
			err error
		}
		ch := make([]chan hres, len(procs))
		for i, gp := range procs {
			ch[i] = make(chan hres, 1)
			go func(gp int, c chan hres) {
				cmd := exec.Command(e.Self, "hashes", id, e.Tier, "0", strconv.Itoa(k))
				cmd.Env = append(os.Environ(), "GOMAXPROCS="+strconv.Itoa(gp), "VERIF_HASH_ORDER="+orders[gp])
				b, err := cmd.Output()
				c <- hres{string(b), err}
			}(gp, ch[i])
		}
		var ref string
		mism := 0
		for i := range procs {
			r := <-ch[i]
			if r.err != nil {
				fmt.Printf("INFRA %s: determinism self-test process failed: %v\n", id, r.err)
				return 2
			}
			if strings.Contains(r.out, " infra ") {
				fmt.Printf("INFRA %s: determinism self-test run reported infra trouble:\n%s\n", id, firstLines(r.out, 5))
				return 2
			}
			if i == 0 {
				ref = r.out
			} else if r.out != ref {
				mism++
				fmt.Printf("determinism mismatch between GOMAXPROCS=%d and GOMAXPROCS=%d:\n%s\n", procs[0], procs[i], diffLines(ref, r.out))
			}
		}
		det["processes"] = len(procs)
		det["gomaxprocs"] = procs
		det["orders"] = []string{"ascending", "descending", "ascending", "each run generated, then replayed from its own record"}
		det["mismatches"] = mism
		if mism > 0 {
			fmt.Printf("INFRA %s: determinism self-test failed (harness nondeterminism), nothing reported\n", id)
			return 2
		}
		fmt.Printf("determinism self-test: %d seeds x %d processes identical (ascending, descending, ascending, generated-then-replayed)\n", k, len(procs))
	}

	// 3. sharded batch
	w := e.Workers
	outs := make([]string, w)
	codes := make([]int, w)
	done := make(chan int, w)
	cmds := make([]*exec.Cmd, w)
	var (
		mu       sync.Mutex
		running  = map[int]bool{}
		killed   = map[int]bool{}
		windDown sync.Once
	)
	// once one worker has a candidate the verdict is decided: the others get a grace period
	// to finish the run they are in, then a SIGTERM (wind up after the current run), then a kill
	stopOthers := func() {
		grace := 20 * time.Second
		if e.Tier == "quick" {
			grace = 5 * time.Second
		}
		time.Sleep(grace)
		mu.Lock()
		for i := range running {
			cmds[i].Process.Signal(syscall.SIGTERM)
		}
		mu.Unlock()
		time.Sleep(grace)
		mu.Lock()
		for i := range running {
			killed[i] = true
			cmds[i].Process.Kill()
		}
		mu.Unlock()
	}
	for i := 0; i < w; i++ {
		outs[i] = filepath.Join(e.Scratch, fmt.Sprintf("partial-%s-%d.json", id, i))
		os.Remove(outs[i])
		cmd := exec.Command(e.Self, "worker", id, e.Tier, strconv.Itoa(i), strconv.Itoa(w), outs[i])
		cmd.Stdout = os.Stdout
		cmd.Stderr = os.Stderr
		cmd.Env = append(os.Environ(), "GOMAXPROCS=2")
		cmds[i] = cmd
		if err := cmd.Start(); err != nil {
			fmt.Printf("INFRA %s: cannot start worker %d: %v\n", id, i, err)
			return 2
		}
		mu.Lock()
		running[i] = true
		mu.Unlock()
		go func(i int) {
			err := cmds[i].Wait()
			mu.Lock()
			delete(running, i)
			mu.Unlock()
			codes[i] = 0
			if err != nil {
				if ee, ok := err.(*exec.ExitError); ok {
					codes[i] = ee.ExitCode()
				} else {
					codes[i] = 2
				}
			}
			if codes[i] == 1 {
				windDown.Do(func() { go stopOthers() })
			}
			done <- i
		}(i)
	}
	for i := 0; i < w; i++ {
		<-done
	}
	parts := make([]*Partial, 0, w)
	nKilled := 0
	for i := 0; i < w; i++ {
		b, err := os.ReadFile(outs[i])
		mu.Lock()
		wasKilled := killed[i]
		mu.Unlock()
		if wasKilled && (err != nil || !json.Valid(b)) {
			// stopped by the orchestrator in the middle of a run after another worker's
			// candidate: it has nothing to report and nothing is concluded from it
			nKilled++
			continue
		}
		if err != nil {
			fmt.Printf("INFRA %s: worker %d left no result (exit %d): %v\n", id, i, codes[i], err)
			return 2
		}
		pt := &Partial{}
		if err := json.Unmarshal(b, pt); err != nil {
			fmt.Printf("INFRA %s: worker %d result unreadable: %v\n", id, i, err)
			return 2
		}
		os.Remove(outs[i])
		parts = append(parts, pt)
		if codes[i] != 0 && codes[i] != 1 && pt.Infra == "" {
			pt.Infra = fmt.Sprintf("worker exit code %d", codes[i])
		}
	}
	for _, pt := range parts {
		if pt.Infra != "" {
			fmt.Printf("INFRA %s: worker %d: %s\n", id, pt.Shard, pt.Infra)
			return 2
		}
	}
	// 4. candidates: verify in a fresh process before believing them. A candidate that does not
	// reproduce is retried a few times (the code under test may itself be nondeterministic, see
	// ReplayFile.Flaky) and, if it still does not, is listed as unconfirmed; the check exits 2
	// only if no candidate at all could be confirmed.
	if nKilled > 0 {
		fmt.Printf("note: %d worker(s) were stopped in the middle of a run after another worker reported a candidate\n", nKilled)
	}
	var confirmed, unconfirmed []string
	for _, pt := range parts {
		if pt.Candidate == "" {
			continue
		}
		ok := false
		var last string
		for try := 0; try < 6 && !ok; try++ {
			cmd := exec.Command(e.Self, "replay", id, pt.Candidate)
			b, err := cmd.CombinedOutput()
			code := 0
			if err != nil {
				if ee, isExit := err.(*exec.ExitError); isExit {
					code = ee.ExitCode()
				} else {
					code = 2
				}
			}
			last = string(b)
			if code == 1 && strings.Contains(last, "VIOLATION property="+id) {
				ok = true
				if try > 0 {
					fmt.Printf("note: %s reproduced only at attempt %d: the code under test is nondeterministic on this history\n", pt.Candidate, try+1)
				}
				fmt.Print(lastLines(last, 40))
			}
		}
		if ok {
			confirmed = append(confirmed, pt.Candidate)
		} else {
			unconfirmed = append(unconfirmed, pt.Candidate)
			fmt.Printf("unconfirmed candidate %s (did not reproduce in 6 fresh processes):\n%s\n", pt.Candidate, lastLines(last, 4))
		}
	}
	if len(confirmed) == 0 && len(unconfirmed) > 0 {
		fmt.Printf("INFRA %s: %d candidate violation(s), none reproduced in a fresh process\n", id, len(unconfirmed))
		return 2
	}
	ev.Violations = len(confirmed)
	merged := writeEvidence(e, ev, desc, pre, parts, start, knownHits, det)
	for _, t := range sortedKeys(knownHits) {
		fmt.Printf("KNOWN-FINDING: %s (hits=%d)\n", t, knownHits[t])
	}
	if len(confirmed) > 0 {
		// VIOLATION lines were printed by the replay processes above
		return 1
	}
	// runs abandoned because a bound of the simulator was hit must stay the exception
	for name, hits := range merged.Probes {
		if strings.HasPrefix(name, "no_verdict_") && strings.HasSuffix(name, "_bound") && merged.Runs > 0 && hits*20 > merged.Runs {
			fmt.Printf("INFRA %s: %d of %d runs ended without a verdict (%s): too many to call the property held\n", id, hits, merged.Runs, name)
			return 2
		}
	}
	// 5. dead probes: the workload must reach what it claims to reach
	req := desc.RequiredProbesQuick
	if e.Tier == "thorough" {
		req = append(append([]string(nil), req...), desc.RequiredProbes...)
	}
	if os.Getenv("VERIF_RUNS") == "" {
		for _, name := range req {
			if i := strings.Index(name, " if "); i >= 0 {
				if merged.Probes[name[i+4:]] == 0 {
					continue
				}
				name = name[:i]
			}
			if merged.Probes[name] == 0 {
				fmt.Printf("INFRA %s: required probe %q was never hit; the workload does not reach what it claims\n", id, name)
				return 2
			}
		}
	}
	fmt.Printf("OK %s: %d runs, %d non-trivial (%d distinct), %d steps, %.1fs\n", id, merged.Runs, merged.NonTrivial, len(merged.Classes), merged.Steps, time.Since(start).Seconds())
	return 0
}

func sortedKeys(m map[string]int64) []string {
	ks := make([]string, 0, len(m))
	for k := range m {
		ks = append(ks, k)
	}
	sort.Strings(ks)
	return ks
}

func firstLines(s string, n int) string {
	ls := strings.Split(s, "\n")
	if len(ls) > n {
		ls = ls[:n]
	}
	return strings.Join(ls, "\n")
}

func lastLines(s string, n int) string {
	ls := strings.Split(strings.TrimRight(s, "\n"), "\n")
	if len(ls) > n {
		ls = ls[len(ls)-n:]
	}
	return strings.Join(ls, "\n") + "\n"
}

func diffLines(a, b string) string {
	la, lb := strings.Split(a, "\n"), strings.Split(b, "\n")
	var sb strings.Builder
	n := 0
	for i := 0; i < len(la) || i < len(lb); i++ {
		var x, y string
		if i < len(la) {
			x = la[i]
		}
		if i < len(lb) {
			y = lb[i]
		}
		if x != y {
			fmt.Fprintf(&sb, "  - %s\n  + %s\n", x, y)
			n++
			if n >= 5 {
				break
			}
		}
	}
	return sb.String()
}

type evidence struct {
	Property    string                 `json:"property_id"`
	Tier        string                 `json:"tier"`
	Seed        int64                  `json:"seed"`
	Level       string                 `json:"level"`
	Coverage    map[string]interface{} `json:"coverage"`
	Assumptions []string               `json:"assumptions"`
	WallS       float64                `json:"wall_s"`
	Violations  int                    `json:"violations"`
}

func writeEvidence(e *Env, ev *evidence, d Description, pre *Result, parts []*Partial, start time.Time, knownHits map[string]int64, det map[string]interface{}) *Partial {
	m := &Partial{Faults: Counters{}, Probes: Counters{}, Strategies: Counters{}, Extra: Counters{}}
	classes := map[uint64]struct{}{}
	capped := false
	early := false
	var samples []map[string]interface{}
	var workerWall float64
	for _, pt := range parts {
		m.Runs += pt.Runs
		m.EnumDone += pt.EnumDone
		m.NonTrivial += pt.NonTrivial
		m.Steps += pt.Steps
		m.SimTimeNs += pt.SimTimeNs
		m.Faults.Merge(pt.Faults)
		m.Probes.Merge(pt.Probes)
		m.Strategies.Merge(pt.Strategies)
		m.Extra.Merge(pt.Extra)
		for _, c := range pt.Classes {
			classes[c] = struct{}{}
		}
		capped = capped || pt.ClassesCapped
		early = early || pt.StoppedEarly
		samples = append(samples, pt.Samples...)
		for k, v := range pt.KnownHits {
			knownHits[k] += v
		}
		if pt.WallS > workerWall {
			workerWall = pt.WallS
		}
	}
	preEvals := int64(0)
	if pre != nil {
		m.Faults.Merge(pre.Faults)
		m.Probes.Merge(pre.Probes)
		m.Extra.Merge(pre.Extra)
		preEvals = pre.Steps
		if pre.Trace != nil && len(samples) < 4 {
			samples = append(samples, map[string]interface{}{"prelude": capTrace(pre.Trace, 40)})
		}
	}
	for c := range classes {
		m.Classes = append(m.Classes, c)
	}
	distinct := int64(len(classes))
	if pre != nil {
		distinct += pre.Extra["prelude_distinct_nontrivial"]
	}
	wall := time.Since(start).Seconds()
	perHour := 0.0
	if workerWall > 0 {
		perHour = float64(m.Runs) / workerWall * 3600
	}
	cov := map[string]interface{}{
		"evaluations":                m.Runs + preEvals + m.EnumDone,
		"simulated_runs":             m.Runs,
		"enumerated_cases":           preEvals + m.EnumDone,
		"enumerated_part_exhaustive": m.EnumDone > 0,
		"distinct_nontrivial":        distinct,
		"nontrivial_runs":            m.NonTrivial,
		"distinct_capped":            capped,
		"rule":                       d.Rule,
		"samples":                    samples,
		"exhaustive":                 false,
		"runs_per_hour":              int64(perHour),
		"seeds":                      map[string]interface{}{"verif_seed": e.Seed, "run_seed": "splitmix(VERIF_SEED, property, run index)", "run_indices": m.Runs},
		"sim_steps":                  m.Steps,
		"sim_time_ns":                m.SimTimeNs,
		"fault_counts":               m.Faults,
		"probes":                     m.Probes,
		"strategies":                 m.Strategies,
		"measures":                   m.Extra,
		"components":                 map[string]interface{}{"real": d.Real, "stub": d.Stub},
		"determinism_selftest":       det,
		"workers":                    e.Workers,
		"gomaxprocs_host":            runtime.NumCPU(),
		"stopped_early":              early,
		"known_finding_hits":         knownHits,
	}
	for k, v := range d.Notes {
		cov[k] = v
	}
	if len(samples) == 0 {
		cov["samples"] = []interface{}{"no non-trivial run was sampled"}
	}
	ev.Coverage = cov
	ev.Assumptions = d.Assumptions
	ev.WallS = wall
	path := filepath.Join(e.Home, "evidence", ev.Property+".json")
	os.MkdirAll(filepath.Dir(path), 0o755)
	if err := WriteJSON(path, ev); err != nil {
		fmt.Fprintf(os.Stderr, "evidence: %v\n", err)
	}
	return m
}
