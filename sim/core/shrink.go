package core

import "time"

// Shrink minimises a failing tape. run re-executes a candidate and returns the violation
// class it produced ("" for none); a candidate is kept iff the class equals want. The
// passes are: truncate, delete chunks (n/2 .. 1), zero chunks, lower single words. Because
// choice 0 always means "same task / no fault / shortest", this removes tasks, calls,
// context switches and faults.
func Shrink(words []uint64, want string, run func([]uint64) string, maxExec int, budget time.Duration) (best []uint64, execs int) {
	best = append([]uint64(nil), words...)
	// real wall clock only bounds the effort; it never influences a candidate's execution
	deadline := time.Now().Add(budget)
	try := func(c []uint64) bool {
		if execs >= maxExec || time.Now().After(deadline) {
			return false
		}
		execs++
		return run(c) == want
	}
	trim := func(c []uint64) []uint64 {
		for len(c) > 0 && c[len(c)-1] == 0 {
			c = c[:len(c)-1]
		}
		return c
	}
	best = trim(best)
	// the first words of every tape are the run's configuration (number of tasks, calls,
	// strategy, fault modes): making them small first shortens everything that follows
	lowerHead := func() {
		for i := 0; i < len(best) && i < 24; i++ {
			if best[i] == 0 {
				continue
			}
			c := append([]uint64(nil), best...)
			c[i] = 0
			if try(c) {
				best = trim(c)
				continue
			}
			// small ranges (a choice among a dozen shapes): the smallest value that still fails
			if best[i] <= 16 {
				for v := uint64(1); v < best[i]; v++ {
					c := append([]uint64(nil), best...)
					c[i] = v
					if try(c) {
						best = trim(c)
						break
					}
				}
				continue
			}
			for v := best[i] / 2; v > 0 && v < best[i]; v /= 2 {
				c := append([]uint64(nil), best...)
				c[i] = v
				if try(c) {
					best = trim(c)
					break
				}
			}
		}
	}
	lowerHead()
	improved := true
	for improved && execs < maxExec && !time.Now().After(deadline) {
		improved = false
		// truncate: binary search for the shortest failing prefix
		lo, hi := 0, len(best)
		for lo < hi {
			mid := (lo + hi) / 2
			if try(best[:mid]) {
				hi = mid
			} else {
				lo = mid + 1
			}
		}
		if hi < len(best) && try(best[:hi]) {
			best = trim(append([]uint64(nil), best[:hi]...))
			improved = true
		}
		// delete chunks
		for size := len(best) / 2; size >= 1; size /= 2 {
			for i := 0; i+size <= len(best); {
				c := append(append([]uint64(nil), best[:i]...), best[i+size:]...)
				if try(c) {
					best = trim(c)
					improved = true
				} else {
					i += size
				}
			}
		}
		// zero chunks
		for size := len(best) / 2; size >= 1; size /= 2 {
			for i := 0; i+size <= len(best); i += size {
				allZero := true
				for _, w := range best[i : i+size] {
					if w != 0 {
						allZero = false
						break
					}
				}
				if allZero {
					continue
				}
				c := append([]uint64(nil), best...)
				for j := i; j < i+size; j++ {
					c[j] = 0
				}
				if try(c) {
					best = trim(c)
					improved = true
				}
			}
		}
		// lower single words
		for i := 0; i < len(best); i++ {
			for best[i] > 0 {
				c := append([]uint64(nil), best...)
				nv := best[i] / 2
				c[i] = nv
				if try(c) {
					best = c
					improved = true
					continue
				}
				if best[i] > 1 {
					c2 := append([]uint64(nil), best...)
					c2[i] = best[i] - 1
					if try(c2) {
						best = c2
						improved = true
						continue
					}
				}
				break
			}
		}
		best = trim(best)
		if improved {
			lowerHead()
		}
	}
	return best, execs
}
