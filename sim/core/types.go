package core

import (
	"fmt"
	"sort"
)

// Violation is one failed invariant of one run.
type Violation struct {
	Property  string `json:"property"`
	Invariant string `json:"invariant"` // violation class, kept fixed while shrinking
	Key       string `json:"key"`       // canonical identity for the known-findings file
	Detail    string `json:"detail"`
}

func (v *Violation) String() string {
	return fmt.Sprintf("property=%s invariant=%s key=%s: %s", v.Property, v.Invariant, v.Key, v.Detail)
}

// Counters is a bag of named event counts (faults fired, probes hit, strategies used).
type Counters map[string]int64

// Inc adds one.
func (c Counters) Inc(k string) { c[k]++ }

// Add adds n.
func (c Counters) Add(k string, n int64) { c[k] += n }

// Merge adds all of o.
func (c Counters) Merge(o Counters) {
	for k, v := range o {
		c[k] += v
	}
}

// Keys returns the sorted keys.
func (c Counters) Keys() []string {
	ks := make([]string, 0, len(c))
	for k := range c {
		ks = append(ks, k)
	}
	sort.Strings(ks)
	return ks
}

// Result is what one simulated run reports.
type Result struct {
	Violation  *Violation
	Known      []*Violation // violations that continue the run (matched against known findings by the worker)
	Infra      string       // non-empty: harness trouble (exit 2), never a violation
	TraceHash  uint64       // hash over every scheduling, fault and operation event of the run
	Trace      []string     // human readable, only when RunOpts.KeepTrace
	NonTrivial bool         // by the property's stated rule
	Class      uint64       // what is counted as "distinct" among non-trivial runs
	Classes    []uint64     // when set, counted instead of Class (a run that reaches several distinct cases)
	Skipped    bool         // enumeration slot that is not a case (not counted as an evaluation)
	Steps      int64        // simulated steps (scheduler steps, history operations, helper cases)
	SimTimeNs  int64        // simulated clock covered
	Faults     Counters     // fault kinds that actually fired
	Probes     Counters     // rare conditions reached
	Strategy   string       // swarm configuration label of this run
	Extra      Counters     // any other additive measure (e.g. calls, ids)
}

// NewResult returns a Result with its maps allocated.
func NewResult() *Result {
	return &Result{Faults: Counters{}, Probes: Counters{}, Extra: Counters{}}
}

// RunOpts are the per-run knobs the framework (not the tape) decides.
type RunOpts struct {
	Tier      string // quick | thorough
	KeepTrace bool
	// IsKnown lets a run that can continue after a violation (C17, C20) ask whether the
	// violation is a listed finding; nil means nothing is known.
	IsKnown func(v *Violation) bool
}

// Description is the static part of the evidence of a property.
type Description struct {
	Level       string
	Rule        string
	Assumptions []string
	Real        []string // components that ran real code
	Stub        []string // components that ran a stand-in
	Notes       map[string]string
	// RequiredProbes must be non-zero in the thorough tier, otherwise the check exits 2.
	RequiredProbes []string
	// RequiredProbesQuick must be non-zero in the quick tier.
	RequiredProbesQuick []string
}

// Property is one simulated check.
type Property interface {
	ID() string
	Describe() Description
	// Budget returns runs per batch for the tier (total, split over workers).
	Budget(tier string) int
	// Prelude runs once per check before the seeded batch (enumerated parts, static scans);
	// it may return a violation, infra trouble, and counters merged into the evidence.
	Prelude(o RunOpts) *Result
	// EnumSize is the size of the enumerated (non-seeded) part, walked completely by every
	// check; RunEnum evaluates slot i of it.
	EnumSize(tier string) int
	RunEnum(i int, o RunOpts) *Result
	// Run executes one simulated run decided entirely by the tape.
	Run(t *Tape, o RunOpts) *Result
}
