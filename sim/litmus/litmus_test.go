// Package litmus holds small concurrent programs with a known verdict, run directly on the
// simulated primitives under many seeds: racy or deadlocking ones must be flagged for some
// seed, correct ones for none. They pin the happens-before model that I2 and I5 rest on.
// Run by tools/selftest.sh inside a scratch copy (development aid, not a registered check).
package litmus

import (
	"testing"
	"time"

	"go.lstv.dev/util/internal/vsim/core"
	"go.lstv.dev/util/internal/vsim/sched"
	"go.lstv.dev/util/internal/vsim/vatomic"
	"go.lstv.dev/util/internal/vsim/vchan"
	"go.lstv.dev/util/internal/vsim/vrace"
	"go.lstv.dev/util/internal/vsim/vsync"
	"go.lstv.dev/util/internal/vsim/vtime"
)

const seeds = 600

// run executes body with n caller tasks under every strategy and many seeds and returns how
// many runs were flagged, with the first violation.
func run(t *testing.T, n int, setup func(), body func(s *sched.Sim, task int)) (flagged int, first string) {
	t.Helper()
	vrace.Enabled = true
	for seed := uint64(0); seed < seeds; seed++ {
		tape := core.NewTape(core.Mix(seed, t.Name(), 0))
		strat := sched.Strategy(tape.Choose(int(sched.NumStrategies)))
		clock := sched.ClockMode(tape.Choose(int(sched.NumClockModes)))
		s := sched.New(tape, sched.Config{Strategy: strat, Clock: clock, MaxSteps: 20000})
		if setup != nil {
			setup()
		}
		s.Run(n, nil, func(task int) { body(s, task) })
		if s.Infra != "" {
			t.Fatalf("seed %d: infra: %s", seed, s.Infra)
		}
		if s.Viol != nil {
			flagged++
			if first == "" {
				first = s.Viol.Invariant + ": " + s.Viol.Detail
			}
		}
	}
	return
}

func mustBeClean(t *testing.T, flagged int, first string) {
	t.Helper()
	if flagged != 0 {
		t.Fatalf("correct program flagged in %d of %d runs: %s", flagged, seeds, first)
	}
}

func mustBeFlagged(t *testing.T, flagged int, want string, first string) {
	t.Helper()
	if flagged == 0 {
		t.Fatalf("faulty program never flagged in %d runs (want %s)", seeds, want)
	}
	if len(first) < len(want) || first[:len(want)] != want {
		t.Fatalf("flagged, but as %q, want prefix %q", first, want)
	}
	t.Logf("flagged in %d of %d runs", flagged, seeds)
}

func TestMutexProtectsVariable(t *testing.T) {
	var mu vsync.Mutex
	f, first := run(t, 4, nil, func(s *sched.Sim, task int) {
		for i := 0; i < 3; i++ {
			mu.Lock()
			vrace.W(1)
			mu.Unlock()
		}
	})
	mustBeClean(t, f, first)
}

func TestNoLockIsARace(t *testing.T) {
	f, first := run(t, 2, nil, func(s *sched.Sim, task int) { vrace.W(1) })
	mustBeFlagged(t, f, "I5-shared-variable-race", first)
}

func TestReadersDoNotRace(t *testing.T) {
	f, first := run(t, 4, nil, func(s *sched.Sim, task int) { vrace.R(1); vrace.R(1) })
	mustBeClean(t, f, first)
}

func TestTwoDifferentLocksAreARace(t *testing.T) {
	var a, b vsync.Mutex
	f, first := run(t, 2, nil, func(s *sched.Sim, task int) {
		m := &a
		if task == 1 {
			m = &b
		}
		m.Lock()
		vrace.W(1)
		m.Unlock()
	})
	mustBeFlagged(t, f, "I5-shared-variable-race", first)
}

func TestRWMutexWriteUnderReadLockIsARace(t *testing.T) {
	var mu vsync.RWMutex
	f, first := run(t, 3, nil, func(s *sched.Sim, task int) {
		mu.RLock()
		vrace.W(1)
		mu.RUnlock()
	})
	mustBeFlagged(t, f, "I5-shared-variable-race", first)
}

func TestRWMutexProper(t *testing.T) {
	var mu vsync.RWMutex
	f, first := run(t, 4, nil, func(s *sched.Sim, task int) {
		if task == 0 {
			mu.Lock()
			vrace.W(1)
			mu.Unlock()
			return
		}
		mu.RLock()
		vrace.R(1)
		mu.RUnlock()
	})
	mustBeClean(t, f, first)
}

func TestUnbufferedChannelOrders(t *testing.T) {
	var c *vchan.Chan[int]
	f, first := run(t, 2, func() { c = vchan.Make[int]() }, func(s *sched.Sim, task int) {
		if task == 0 {
			vrace.W(1)
			c.Send(1)
			return
		}
		c.Recv()
		vrace.W(1)
	})
	mustBeClean(t, f, first)
}

func TestUnbufferedReceiveBeforeSendCompletes(t *testing.T) {
	var c *vchan.Chan[int]
	f, first := run(t, 2, func() { c = vchan.Make[int]() }, func(s *sched.Sim, task int) {
		if task == 0 {
			c.Send(1)
			vrace.W(1) // after the send completed: the receive happened before
			return
		}
		vrace.W(1)
		c.Recv()
	})
	mustBeClean(t, f, first)
}

func TestBufferedSendDoesNotWaitForReceive(t *testing.T) {
	var c *vchan.Chan[int]
	f, first := run(t, 2, func() { c = vchan.Make[int](1) }, func(s *sched.Sim, task int) {
		if task == 0 {
			c.Send(1)
			vrace.W(1) // buffered: nothing orders this after the receiver's write
			return
		}
		vrace.W(1)
		c.Recv()
	})
	mustBeFlagged(t, f, "I5-shared-variable-race", first)
}

func TestSemaphoreChannel(t *testing.T) {
	var sem *vchan.Chan[struct{}]
	f, first := run(t, 4, func() { sem = vchan.Make[struct{}](1) }, func(s *sched.Sim, task int) {
		sem.Send(struct{}{})
		vrace.W(1)
		sem.Recv()
	})
	mustBeClean(t, f, first)
}

func TestSemaphoreOfTwoIsARace(t *testing.T) {
	var sem *vchan.Chan[struct{}]
	f, first := run(t, 3, func() { sem = vchan.Make[struct{}](2) }, func(s *sched.Sim, task int) {
		sem.Send(struct{}{})
		vrace.W(1)
		sem.Recv()
	})
	mustBeFlagged(t, f, "I5-shared-variable-race", first)
}

func TestCloseOrders(t *testing.T) {
	var c *vchan.Chan[int]
	f, first := run(t, 3, func() { c = vchan.Make[int]() }, func(s *sched.Sim, task int) {
		if task == 0 {
			vrace.W(1)
			c.Close()
			return
		}
		if _, ok := c.Recv2(); ok {
			t.Errorf("received from a closed empty channel")
		}
		vrace.R(1)
	})
	mustBeClean(t, f, first)
}

func TestAtomicPublish(t *testing.T) {
	var flag vatomic.Bool
	f, first := run(t, 2, func() { flag = vatomic.Bool{} }, func(s *sched.Sim, task int) {
		if task == 0 {
			vrace.W(1)
			flag.Store(true)
			return
		}
		if flag.Load() {
			vrace.R(1)
		}
	})
	mustBeClean(t, f, first)
}

func TestAtomicPublishTooEarly(t *testing.T) {
	var flag vatomic.Bool
	f, first := run(t, 2, func() { flag = vatomic.Bool{} }, func(s *sched.Sim, task int) {
		if task == 0 {
			flag.Store(true)
			vrace.W(1)
			return
		}
		if flag.Load() {
			vrace.R(1)
		}
	})
	mustBeFlagged(t, f, "I5-shared-variable-race", first)
}

func TestOnce(t *testing.T) {
	var once vsync.Once
	f, first := run(t, 4, func() { once = vsync.Once{} }, func(s *sched.Sim, task int) {
		once.Do(func() { vrace.W(1) })
		vrace.R(1)
	})
	mustBeClean(t, f, first)
}

func TestWaitGroup(t *testing.T) {
	var wg vsync.WaitGroup
	f, first := run(t, 1, nil, func(s *sched.Sim, task int) {
		wg = vsync.WaitGroup{}
		wg.Add(2)
		for i := 0; i < 2; i++ {
			id := 10 + i
			sched.Go(func() {
				vrace.W(id)
				wg.Done()
			})
		}
		wg.Wait()
		vrace.R(10)
		vrace.R(11)
	})
	mustBeClean(t, f, first)
}

func TestGoStatementOrdersParentBeforeChild(t *testing.T) {
	var done *vchan.Chan[int]
	f, first := run(t, 1, func() { done = vchan.Make[int]() }, func(s *sched.Sim, task int) {
		vrace.W(1)
		sched.Go(func() {
			vrace.R(1)
			done.Send(1)
		})
		done.Recv()
	})
	mustBeClean(t, f, first)
}

func TestChildNotOrderedBeforeParent(t *testing.T) {
	f, first := run(t, 1, nil, func(s *sched.Sim, task int) {
		sched.Go(func() { vrace.W(1) })
		vrace.W(1)
	})
	mustBeFlagged(t, f, "I5-shared-variable-race", first)
}

func TestCondWithPredicateLoop(t *testing.T) {
	var mu vsync.Mutex
	var cond *vsync.Cond
	ready := false
	f, first := run(t, 3, func() { mu = vsync.Mutex{}; cond = vsync.NewCond(&mu); ready = false }, func(s *sched.Sim, task int) {
		if task == 0 {
			mu.Lock()
			ready = true
			vrace.W(1)
			mu.Unlock()
			cond.Broadcast()
			return
		}
		mu.Lock()
		for !ready {
			cond.Wait()
		}
		vrace.R(1)
		mu.Unlock()
	})
	mustBeClean(t, f, first)
}

func TestCondLostWakeup(t *testing.T) {
	var mu vsync.Mutex
	var cond *vsync.Cond
	f, first := run(t, 2, func() { mu = vsync.Mutex{}; cond = vsync.NewCond(&mu) }, func(s *sched.Sim, task int) {
		if task == 0 {
			cond.Signal() // may come before the waiter waits: no predicate protects it
			return
		}
		mu.Lock()
		cond.Wait()
		mu.Unlock()
	})
	mustBeFlagged(t, f, "E1-stuck", first)
}

func TestLockOrderDeadlock(t *testing.T) {
	var a, b vsync.Mutex
	f, first := run(t, 2, func() { a, b = vsync.Mutex{}, vsync.Mutex{} }, func(s *sched.Sim, task int) {
		x, y := &a, &b
		if task == 1 {
			x, y = &b, &a
		}
		x.Lock()
		y.Lock()
		y.Unlock()
		x.Unlock()
	})
	mustBeFlagged(t, f, "E1-stuck", first)
}

func TestSelectTimeoutFiresWhenIdle(t *testing.T) {
	var c *vchan.Chan[int]
	timeouts := 0
	f, first := run(t, 1, func() { c = vchan.Make[int]() }, func(s *sched.Sim, task int) {
		switch vchan.Select(false, vchan.RecvCase(c), vchan.RecvCase(vtime.After(50*time.Millisecond))) {
		case 1:
			timeouts++
		}
	})
	mustBeClean(t, f, first)
	if timeouts != seeds {
		t.Fatalf("timeout clause ran %d times of %d", timeouts, seeds)
	}
}

func TestSleepLetsOthersRun(t *testing.T) {
	var mu vsync.Mutex
	f, first := run(t, 3, func() { mu = vsync.Mutex{} }, func(s *sched.Sim, task int) {
		for !mu.TryLock() {
			vtime.Sleep(time.Microsecond)
		}
		vrace.W(1)
		mu.Unlock()
	})
	mustBeClean(t, f, first)
}

func TestPoolHandOff(t *testing.T) {
	var pool vsync.Pool
	f, first := run(t, 3, func() { pool = vsync.Pool{New: func() interface{} { return new(int) }} }, func(s *sched.Sim, task int) {
		for i := 0; i < 2; i++ {
			p := pool.Get().(*int)
			*p++
			pool.Put(p)
		}
	})
	mustBeClean(t, f, first)
}

func TestDaemonTornDown(t *testing.T) {
	var c *vchan.Chan[int]
	got := 0
	f, first := run(t, 1, func() { c = vchan.Make[int](2) }, func(s *sched.Sim, task int) {
		sched.Go(func() {
			for i := 0; ; i++ {
				c.Send(i) // never returns on its own
			}
		})
		got += c.Recv() + c.Recv()
	})
	mustBeClean(t, f, first)
	if got != seeds { // 0 + 1 per run
		t.Fatalf("received %d, want %d", got, seeds)
	}
}

func TestPlainVersusAtomicIsARace(t *testing.T) {
	x := new(int32)
	vrace.Register(7, uintptrOf(x))
	f, first := run(t, 2, nil, func(s *sched.Sim, task int) {
		if task == 0 {
			vatomic.AddInt32(x, 1)
			return
		}
		vrace.R(7) // plain read of an atomically updated variable
	})
	mustBeFlagged(t, f, "I5-shared-variable-race", first)
}

func TestTickerDrivesABackgroundTask(t *testing.T) {
	ticks := 0
	f, first := run(t, 1, nil, func(s *sched.Sim, task int) {
		tk := vtime.NewTicker(10 * time.Millisecond)
		for i := 0; i < 3; i++ {
			tk.C.Recv()
			ticks++
		}
		tk.Stop()
	})
	mustBeClean(t, f, first)
	if ticks != 3*seeds {
		t.Fatalf("got %d ticks, want %d", ticks, 3*seeds)
	}
}

func TestOnceValue(t *testing.T) {
	calls := 0
	var get func() int
	f, first := run(t, 4, func() {
		calls = 0
		get = vsync.OnceValue(func() int { calls++; vrace.W(1); return 7 })
	}, func(s *sched.Sim, task int) {
		if get() != 7 {
			t.Errorf("wrong value")
		}
		vrace.R(1)
		if calls != 1 {
			t.Errorf("initialiser ran %d times", calls)
		}
	})
	mustBeClean(t, f, first)
}

// The rendezvous of an unbuffered channel is atomic: a send clause of a select commits only
// together with a receiver, and a receiver that leaves through another clause (a cancelled
// context) must not leave the sender behind with a half-made offer.
func TestSelectSendMeetsSelectReceiveOrBothLeave(t *testing.T) {
	var c, done *vchan.Chan[int]
	var mu vsync.Mutex
	f, first := run(t, 3, func() { c, done, mu = vchan.Make[int](), vchan.Make[int](), vsync.Mutex{} }, func(s *sched.Sim, task int) {
		switch task {
		case 0: // hands the lock over, or gives it back when the other side has gone
			mu.Lock()
			switch vchan.Select(false, vchan.SendCase(c, 1), vchan.RecvCase(done)) {
			case 0: // the receiver owns the lock now
			case 1:
				mu.Unlock()
			}
		case 1: // waits for the hand-over or for the cancellation
			switch vchan.Select(false, vchan.RecvCase(c), vchan.RecvCase(done)) {
			case 0:
				vrace.W(1)
				mu.Unlock()
			}
		case 2: // cancels at some point, then needs the lock itself
			done.Close()
			mu.Lock()
			vrace.W(1)
			mu.Unlock()
		}
	})
	mustBeClean(t, f, first)
}

// A select that receives from two channels is served by one sender at a time: no value is lost
// and none arrives twice.
func TestSelectReceiverServedOncePerRound(t *testing.T) {
	var a, b *vchan.Chan[int]
	sum := 0
	f, first := run(t, 3, func() { a, b = vchan.Make[int](), vchan.Make[int]() }, func(s *sched.Sim, task int) {
		switch task {
		case 0:
			got := 0
			for i := 0; i < 2; i++ {
				switch vchan.Select(false, vchan.RecvCase(a), vchan.RecvCase(b)) {
				case 0:
					got += a.Selected1()
				case 1:
					got += b.Selected1()
				}
			}
			sum += got
		case 1:
			vchan.Select(false, vchan.SendCase(a, 1))
		case 2:
			b.Send(10)
		}
	})
	mustBeClean(t, f, first)
	if sum != 11*seeds {
		t.Fatalf("received sum %d, want %d", sum, 11*seeds)
	}
}

// A plain sender whose offer a select passes over keeps waiting for the next receiver.
func TestPlainSendSurvivesASelectThatGoesElsewhere(t *testing.T) {
	var c, other *vchan.Chan[int]
	f, first := run(t, 3, func() { c, other = vchan.Make[int](), vchan.Make[int](1) }, func(s *sched.Sim, task int) {
		switch task {
		case 0:
			vrace.W(1)
			c.Send(7)
		case 1:
			other.Send(1)
			vchan.Select(false, vchan.RecvCase(c), vchan.RecvCase(other)) // may take either
		case 2:
			// whoever is left: the plain send if the select went elsewhere, else the buffered value
			switch vchan.Select(false, vchan.RecvCase(c), vchan.RecvCase(other)) {
			case 0:
				vrace.R(1)
			}
		}
	})
	mustBeClean(t, f, first)
}

// Arming a timer happens before its firing: what was written before time.AfterFunc is visible
// to the callback, what was written before time.NewTimer to whoever receives the tick.
func TestTimerArmingHappensBeforeFiring(t *testing.T) {
	f, first := run(t, 1, nil, func(s *sched.Sim, task int) {
		vrace.W(1)
		done := vchan.Make[int]()
		vtime.AfterFunc(time.Millisecond, func() {
			vrace.R(1)
			vrace.W(2)
			done.Send(1)
		})
		done.Recv()
		vrace.R(2)
	})
	mustBeClean(t, f, first)
	f, first = run(t, 2, nil, func(s *sched.Sim, task int) {
		if task == 0 {
			vrace.W(3)
			tm := vtime.NewTimer(time.Millisecond)
			tm.C.Recv()
			vrace.R(3)
		}
	})
	mustBeClean(t, f, first)
}

// ... and a callback is not ordered after what the arming task did later.
func TestTimerCallbackRacesWithLaterWrites(t *testing.T) {
	f, first := run(t, 1, nil, func(s *sched.Sim, task int) {
		done := vchan.Make[int](1)
		vtime.AfterFunc(time.Millisecond, func() {
			vrace.W(4)
			done.Send(1)
		})
		vrace.W(4) // after arming, before the tick: unordered with the callback
		vtime.Sleep(2 * time.Millisecond)
		done.Recv()
	})
	mustBeFlagged(t, f, "I5", first)
}

// windowProgram: a counter under a mutex; every 500th increment leaves the lock and touches a
// variable under the read lock only (a window that opens once per 500 calls). Two tasks in
// the window at once are a race.
func windowProgram(stall bool, flaw bool) (flagged int, first string, stalls int64) {
	vrace.Enabled = true
	for seed := uint64(0); seed < 40; seed++ {
		tape := core.NewTape(core.Mix(seed, "window", 0))
		s := sched.New(tape, sched.Config{Strategy: sched.SRunToBlock, MaxSteps: 400000, RareStall: stall})
		var mu vsync.RWMutex
		n := 0
		s.Run(2, nil, func(task int) {
			for i := 0; i < 1200; i++ {
				mu.Lock()
				vrace.W(7)
				n++
				if n%500 != 0 {
					mu.Unlock()
					continue
				}
				mu.Unlock()
				if flaw {
					mu.RLock()
					vrace.W(7)
					mu.RUnlock()
				} else {
					mu.RLock()
					vrace.R(7)
					mu.RUnlock()
				}
			}
		})
		stalls += s.Faults["stalled_at_rare_site"]
		if s.Infra != "" {
			return -1, s.Infra, stalls
		}
		if s.Viol != nil {
			flagged++
			if first == "" {
				first = s.Viol.Invariant + ": " + s.Viol.Detail
			}
		}
	}
	return
}

// The stalled-node fault holds the first task at the rarely reached read lock until the second
// one comes to it: the window that run-to-block scheduling alone never sees two tasks in.
func TestStallFindsTheRareWindow(t *testing.T) {
	f, first, _ := windowProgram(false, true)
	if f != 0 {
		t.Fatalf("run-to-block alone was expected to miss the window, flagged %d: %s", f, first)
	}
	f, first, stalls := windowProgram(true, true)
	if f < 20 || stalls == 0 {
		t.Fatalf("stalled-node fault: flagged %d of 40 runs, %d stalls (%s)", f, stalls, first)
	}
	if len(first) < 2 || first[:2] != "I5" {
		t.Fatalf("flagged as %q, want I5", first)
	}
	t.Logf("flagged in %d of 40 runs, %d stalls", f, stalls)
}

// ... and it only restricts the schedule: a program whose window is safe stays clean and finishes.
func TestStallKeepsCorrectProgramsClean(t *testing.T) {
	f, first, stalls := windowProgram(true, false)
	if f != 0 {
		t.Fatalf("correct program flagged in %d runs: %s", f, first)
	}
	if stalls == 0 {
		t.Fatalf("the fault never fired")
	}
}

// A task that waits politely (spin on an atomic) for a stalled one gets it back: no livelock.
func TestStallReleasedWhenWaitedFor(t *testing.T) {
	for seed := uint64(0); seed < 40; seed++ {
		tape := core.NewTape(core.Mix(seed, "stallwait", 0))
		s := sched.New(tape, sched.Config{Strategy: sched.SRunToBlock, MaxSteps: 200000, RareStall: true})
		var flag vatomic.Int32
		var mu vsync.Mutex
		s.Run(2, nil, func(task int) {
			if task == 0 {
				for i := 0; i < 300; i++ {
					mu.Lock()
					mu.Unlock()
				}
				vrace.W(8) // first touch after the warm-up: a rare point
				flag.Store(1)
				return
			}
			for flag.Load() == 0 {
			}
		})
		if s.Infra != "" || s.Viol != nil {
			t.Fatalf("seed %d: infra=%q viol=%v", seed, s.Infra, s.Viol)
		}
	}
}
