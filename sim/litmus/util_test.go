package litmus

import "unsafe"

func uintptrOf(p *int32) uintptr { return uintptr(unsafe.Pointer(p)) }
