// Command rewrite prepares the packages of a scratch copy for simulation (C19):
//
//   - the sync, sync/atomic, math/rand and time imports are substituted by the simulator's
//     stand-ins under the original local names, so every selector in the unchanged function
//     bodies resolves to a simulated primitive;
//   - go statements, channel types and operations, close and select are turned into calls on
//     the simulated scheduler / vchan;
//   - every statement that reads or writes a package-level variable which some function
//     assigns to (or hands to sync/atomic by address) gets a vrace.R/W hook in front of it;
//   - every file gets a function that re-executes its package-level var initialisers, every
//     package a VsimReset() that the harness calls at the start of each run (init functions
//     are re-run as well);
//   - constructs the simulator cannot schedule are reported in a generated file of the
//     harness together with the reset registry.
//
// All changes are textual edits at AST positions; function bodies are otherwise untouched.
//
// usage: rewrite <scratch module root> <out scan_gen.go> <pkgdir>...
package main

import (
	"fmt"
	"go/ast"
	"go/parser"
	"go/token"
	"os"
	"path/filepath"
	"sort"
	"strconv"
	"strings"
)

const base = "go.lstv.dev/util/internal/vsim/"

var subst = map[string][2]string{
	"sync":         {base + "vsync", "sync"},
	"sync/atomic":  {base + "vatomic", "atomic"},
	"math/rand":    {base + "vrand", "rand"},
	"math/rand/v2": {base + "vrand2", "rand"},
	"time":         {base + "vtime", "time"},
	"context":      {base + "vcontext", "context"},
	"crypto/rand":  {base + "vcrand", "rand"},
}

type edit struct {
	start, end int // byte offsets; start == end is an insertion
	text       string
	prio       int
}

type fileCtx struct {
	path             string
	rel              string
	fset             *token.FileSet
	f                *ast.File
	src              []byte
	edits            []edit
	need             map[string]bool // extra imports needed: vchan, vsched, vrace
	sync             string          // local names of substituted imports ("" if absent)
	atomic           string
	skip             map[ast.Node]bool // nodes whose generic edit is suppressed
	selTemp          int
	runtimeName      string // local name of the "runtime" import
	goschedRewritten bool
	imports          map[string]string // local name -> import path
}

func (c *fileCtx) off(p token.Pos) int { return c.fset.Position(p).Offset }
func (c *fileCtx) text(n ast.Node) string {
	return string(c.src[c.off(n.Pos()):c.off(n.End())])
}
func (c *fileCtx) ins(p token.Pos, s string, prio int) {
	o := c.off(p)
	c.edits = append(c.edits, edit{o, o, s, prio})
}
func (c *fileCtx) repl(from, to token.Pos, s string) {
	c.edits = append(c.edits, edit{c.off(from), c.off(to), s, 5})
}

type typeDecl struct {
	fc   *fileCtx
	expr ast.Expr
}

type pkgCtx struct {
	dir        string
	name       string
	files      []*fileCtx
	vars       map[string]bool      // package-level var names
	specs      map[interface{}]bool // their ValueSpecs (ast.Object.Decl)
	syncLike   map[string]bool      // vars that are synchronisation objects themselves
	instr      map[string]int       // instrumented var -> id
	resetFns   []string
	chans      map[string]bool        // names declared somewhere in the package with a channel type
	types      map[string]typeDecl    // type declarations of the package
	alias      map[interface{}]string // receiver field of a singleton type's method -> the package-level variable
	ptrDecl    map[interface{}]bool   // parameter / receiver fields declared with a pointer type
	methods    map[string]bool        // method names declared in the package (x.m without a call is a method value, not a field)
	unsafeObj  map[string]bool        // package-level variables holding a standard-library object documented as not safe for concurrent use
	importDirs map[string]string      // local import name -> directory of a package of this module
	chanFuncs  map[string]bool        // functions and methods declared with a single channel result
	timeNames  map[string]bool        // local names of the time import
	namedChan  map[string]bool        // type X chan T declared in the package
	chanStruct map[string]bool        // ... of which those with methods (rewritten to struct{ *vchan.Chan[T] })
	structVars map[string]bool        // names declared with one of the latter types
}

// Standard-library objects with internal state and no locking of their own: a method call on
// one (or handing it to a function) is a write to it as far as the race check is concerned.
// Only types whose documentation or source leaves no doubt are listed.
var unsafeTypes = map[string]map[string]bool{
	"bufio":          {"Reader": true, "Writer": true, "Scanner": true, "ReadWriter": true},
	"bytes":          {"Buffer": true, "Reader": true},
	"strings":        {"Builder": true, "Reader": true},
	"hash":           {"Hash": true, "Hash32": true, "Hash64": true},
	"hash/maphash":   {"Hash": true},
	"encoding/json":  {"Decoder": true, "Encoder": true},
	"encoding/csv":   {"Reader": true, "Writer": true},
	"encoding/xml":   {"Decoder": true, "Encoder": true},
	"container/list": {"List": true},
	"container/ring": {"Ring": true},
	"text/tabwriter": {"Writer": true},
	"compress/gzip":  {"Reader": true, "Writer": true},
	"compress/flate": {"Writer": true},
	"compress/zlib":  {"Writer": true},
	"crypto/cipher":  {"Stream": true, "StreamReader": true, "StreamWriter": true},
	"text/scanner":   {"Scanner": true},
	"archive/tar":    {"Reader": true, "Writer": true},
	"archive/zip":    {"Writer": true},
	"mime/multipart": {"Reader": true, "Writer": true},
}

// readOnlyMethods of the listed types do not change the object (concurrent calls of these alone
// are not a race).
var readOnlyMethods = map[string]bool{"Len": true, "Cap": true, "Bytes": true, "String": true, "Size": true, "Available": true,
	"Buffered": true, "Sum": true, "Sum32": true, "Sum64": true, "BlockSize": true, "Front": true, "Back": true, "Err": true}

var unsafeCtors = map[string]map[string]bool{
	"bufio":           {"NewReader": true, "NewReaderSize": true, "NewWriter": true, "NewWriterSize": true, "NewScanner": true, "NewReadWriter": true},
	"bytes":           {"NewBuffer": true, "NewBufferString": true, "NewReader": true},
	"strings":         {"NewReader": true},
	"crypto/md5":      {"New": true},
	"crypto/sha1":     {"New": true},
	"crypto/sha256":   {"New": true, "New224": true},
	"crypto/sha512":   {"New": true, "New384": true, "New512_224": true, "New512_256": true},
	"crypto/hmac":     {"New": true},
	"hash/fnv":        {"New32": true, "New32a": true, "New64": true, "New64a": true, "New128": true, "New128a": true},
	"hash/crc32":      {"New": true, "NewIEEE": true},
	"hash/crc64":      {"New": true},
	"hash/adler32":    {"New": true},
	"encoding/json":   {"NewDecoder": true, "NewEncoder": true},
	"encoding/csv":    {"NewReader": true, "NewWriter": true},
	"encoding/xml":    {"NewDecoder": true, "NewEncoder": true},
	"encoding/hex":    {"Dumper": true, "NewEncoder": true, "NewDecoder": true},
	"encoding/base64": {"NewEncoder": true, "NewDecoder": true},
	"container/list":  {"New": true},
	"container/ring":  {"New": true},
	"text/tabwriter":  {"NewWriter": true},
	"compress/gzip":   {"NewReader": true, "NewWriter": true, "NewWriterLevel": true},
	"compress/flate":  {"NewReader": true, "NewWriter": true},
	"compress/zlib":   {"NewReader": true, "NewWriter": true},
	"crypto/cipher":   {"NewCTR": true, "NewOFB": true, "NewCFBEncrypter": true, "NewCFBDecrypter": true},
}

// unsafeObjExpr: is e a type (pkg.T, *pkg.T) or a value (pkg.New...(...), &pkg.T{...},
// pkg.T{...}, new(pkg.T)) of one of the listed kinds?
func (fc *fileCtx) unsafeObjExpr(e ast.Expr) bool {
	sel := func(x ast.Expr, table map[string]map[string]bool) bool {
		s, ok := x.(*ast.SelectorExpr)
		if !ok {
			return false
		}
		id, ok := s.X.(*ast.Ident)
		if !ok || id.Obj != nil {
			return false
		}
		return table[fc.imports[id.Name]][s.Sel.Name]
	}
	switch x := e.(type) {
	case nil:
		return false
	case *ast.StarExpr:
		return fc.unsafeObjExpr(x.X)
	case *ast.SelectorExpr:
		return sel(x, unsafeTypes)
	case *ast.UnaryExpr:
		if x.Op == token.AND {
			return fc.unsafeObjExpr(x.X)
		}
	case *ast.CompositeLit:
		return x.Type != nil && sel(x.Type, unsafeTypes)
	case *ast.CallExpr:
		if id, ok := x.Fun.(*ast.Ident); ok && id.Name == "new" && id.Obj == nil && len(x.Args) == 1 {
			return sel(x.Args[0], unsafeTypes)
		}
		return sel(x.Fun, unsafeCtors)
	}
	return false
}

var (
	unsupported, i2off, notes []string
	usesSync                  bool
	varNames                  []string // global id -> "pkg.name"
)

// allNamedChans[dir][X]: package dir declares a channel type X that is rewritten to a struct;
// allNamedChanAlias[dir][X]: it declares a channel type X at all.
var allNamedChans, allNamedChanAlias = map[string]map[string]bool{}, map[string]map[string]bool{}

// resetOnly (first argument "-reset"): only the per-run re-initialisation of package-level
// state is generated (C17 runs the real packages otherwise unmodified).
var resetOnly bool

func main() {
	if len(os.Args) > 1 && os.Args[1] == "-reset" {
		resetOnly = true
		os.Args = append(os.Args[:1], os.Args[2:]...)
	}
	if len(os.Args) < 4 {
		fmt.Fprintln(os.Stderr, "usage: rewrite [-reset] <root> <out> <pkgdir>...")
		os.Exit(2)
	}
	root, out := os.Args[1], os.Args[2]
	var pkgs []*pkgCtx
	nfiles := 0
	for _, dir := range os.Args[3:] {
		if p := loadPkg(root, dir); p != nil {
			pkgs = append(pkgs, p)
		}
	}
	// the channel types every package declares are known before any file is rewritten: a
	// package may use another one's (chanx.Box[ID])
	for _, p := range pkgs {
		p.namedChans()
		allNamedChans[filepath.ToSlash(p.dir)] = p.chanStruct
		allNamedChanAlias[filepath.ToSlash(p.dir)] = p.namedChan
	}
	for _, p := range pkgs {
		if !resetOnly {
			p.classify()
		}
		for _, fc := range p.files {
			p.rewriteFile(fc)
			nfiles++
		}
	}
	// packages below a non-root "internal" directory cannot be imported by the harness: the
	// package that owns the directory resets them on its behalf (unless that would be an import
	// cycle: then their state is not reset between runs, and the scan says so)
	forward := map[string][]*pkgCtx{}
	for _, q := range pkgs {
		if owner, hidden := hiddenOwner(q.dir); hidden && len(q.resetFns) > 0 {
			var op *pkgCtx
			for _, o := range pkgs {
				if o.dir == owner {
					op = o
				}
			}
			if op == nil || q.importsPkg(op.dir) {
				notes = append(notes, q.dir+": package-level state is not reset between runs (not importable by the harness)")
				continue
			}
			forward[owner] = append(forward[owner], q)
		}
	}
	for _, p := range pkgs {
		p.writeReset(root, forward[p.dir])
	}
	sort.Strings(unsupported)
	sort.Strings(i2off)
	i2 := "enabled"
	if len(i2off) > 0 {
		i2 = "disabled: " + strings.Join(i2off, "; ")
	}
	var dirs []string
	for _, a := range os.Args[3:] {
		dirs = append(dirs, a)
	}
	note := fmt.Sprintf("rewrote %d file(s) of %s; %d package-level variable(s) instrumented for the shared-variable race check (%s); I2/I5 happens-before %s", nfiles, strings.Join(dirs, ","), len(varNames), strings.Join(varNames, ","), i2)
	if len(notes) > 0 {
		note += "; " + strings.Join(notes, "; ")
	}
	imports, calls := "", ""
	k := 0
	for _, p := range pkgs {
		if _, hidden := hiddenOwner(p.dir); hidden || (len(p.resetFns) == 0 && len(forward[p.dir]) == 0) {
			continue
		}
		imports += fmt.Sprintf("\tpkg%d %q\n", k, "go.lstv.dev/util/"+filepath.ToSlash(p.dir))
		calls += fmt.Sprintf("\tpkg%d.VsimReset()\n", k)
		k++
	}
	names := ""
	for _, n := range varNames {
		names += fmt.Sprintf("%q, ", n)
	}
	// other exported functions of package uu that hand out IDs (func() ID, func(int) []ID,
	// func(int) ID, func() []ID): an edited tree that grows a batch API is exercised through it too
	sources, srcNames := "", ""
	callbacks, cbNames := "", ""
	controls, ctlNames := "", ""
	needCtx := false
	uuAlias := ""
	for i, p := range pkgs {
		if p.dir != "uu" {
			continue
		}
		_ = i
		// ID-returning methods per receiver type: func (g *T) M() ID / (ID, error)
		type idMethod struct {
			name    string
			withErr bool
		}
		idMethods := map[string][]idMethod{}
		for _, fc := range p.files {
			for _, d := range fc.f.Decls {
				fd, ok := d.(*ast.FuncDecl)
				if !ok || fd.Recv == nil || len(fd.Recv.List) != 1 || !fd.Name.IsExported() {
					continue
				}
				if fd.Type.Params != nil && len(fd.Type.Params.List) > 0 {
					continue
				}
				rt := fd.Recv.List[0].Type
				if st, ok := rt.(*ast.StarExpr); ok {
					rt = st.X
				}
				tn, ok := rt.(*ast.Ident)
				if !ok || !tn.IsExported() || tn.Name == "ID" {
					continue
				}
				res := fd.Type.Results
				if res == nil || len(res.List) < 1 || len(res.List) > 2 || len(res.List[0].Names) > 1 {
					continue
				}
				if id, ok := res.List[0].Type.(*ast.Ident); !ok || id.Name != "ID" {
					continue
				}
				withErr := false
				if len(res.List) == 2 {
					if id, ok := res.List[1].Type.(*ast.Ident); !ok || id.Name != "error" || len(res.List[1].Names) > 1 {
						continue
					}
					withErr = true
				}
				idMethods[tn.Name] = append(idMethods[tn.Name], idMethod{fd.Name.Name, withErr})
			}
		}
		for _, fc := range p.files {
			for _, d := range fc.f.Decls {
				fd, ok := d.(*ast.FuncDecl)
				if !ok || fd.Recv != nil || !fd.Name.IsExported() || fd.Name.Name == "RandomID" || fd.Type.TypeParams != nil {
					continue
				}
				// a constructor of an object that hands out IDs: func NewT() *T / T / (*T, error).
				// Every call of the generated source makes a fresh object and draws up to four IDs
				// from it (objects are not shared between tasks: nothing says they may be)
				if (fd.Type.Params == nil || len(fd.Type.Params.List) == 0) && fd.Type.Results != nil && len(fd.Type.Results.List) >= 1 && len(fd.Type.Results.List) <= 2 && len(fd.Type.Results.List[0].Names) <= 1 {
					rt := fd.Type.Results.List[0].Type
					if st, ok := rt.(*ast.StarExpr); ok {
						rt = st.X
					}
					ctorErr := false
					okCtor := true
					if len(fd.Type.Results.List) == 2 {
						if id, ok := fd.Type.Results.List[1].Type.(*ast.Ident); !ok || id.Name != "error" || len(fd.Type.Results.List[1].Names) > 1 {
							okCtor = false
						}
						ctorErr = true
					}
					if tn, ok := rt.(*ast.Ident); ok && okCtor && len(idMethods[tn.Name]) > 0 {
						for _, m := range idMethods[tn.Name] {
							mk := fmt.Sprintf("g := uu.%s()", fd.Name.Name)
							if ctorErr {
								mk = fmt.Sprintf("g, err := uu.%s(); if err != nil { return nil }", fd.Name.Name)
							}
							draw := fmt.Sprintf("ids = append(ids, g.%s())", m.name)
							if m.withErr {
								draw = fmt.Sprintf("id, err := g.%s(); if err != nil { break }; ids = append(ids, id)", m.name)
							}
							sources += fmt.Sprintf("\tfunc(n int) []uu.ID { %s; var ids []uu.ID; for i := 0; i < n && i < 4; i++ { %s }; return ids },\n", mk, draw)
							srcNames += fmt.Sprintf("%q, ", "uu."+fd.Name.Name+"()."+m.name)
						}
						continue
					}
				}
				// an API that lends the generator to a callback: func X(f func(*rand.Rand)) [error]
				if ps := fd.Type.Params; ps != nil && len(ps.List) == 1 && len(ps.List[0].Names) <= 1 {
					if ft, ok := ps.List[0].Type.(*ast.FuncType); ok && ft.Params != nil && len(ft.Params.List) == 1 && len(ft.Params.List[0].Names) <= 1 && ft.Results == nil {
						if st, ok := ft.Params.List[0].Type.(*ast.StarExpr); ok {
							if se, ok := st.X.(*ast.SelectorExpr); ok && se.Sel.Name == "Rand" {
								if id, ok := se.X.(*ast.Ident); ok && fc.imports[id.Name] == "math/rand" {
									rs := fd.Type.Results
									switch {
									case rs == nil || len(rs.List) == 0:
										callbacks += fmt.Sprintf("\tfunc(cb func(*rand.Rand)) { uu.%s(cb) },\n", fd.Name.Name)
									case len(rs.List) == 1 && len(rs.List[0].Names) <= 1:
										callbacks += fmt.Sprintf("\tfunc(cb func(*rand.Rand)) { _ = uu.%s(cb) },\n", fd.Name.Name)
									default:
										continue
									}
									cbNames += fmt.Sprintf("%q, ", "uu."+fd.Name.Name)
									continue
								}
							}
						}
					}
				}
				// a control function: no result (or just an error / a bool) and up to two parameters of
				// the kinds int, int64, uint64, bool, time.Duration — Reseed(), SetLanes(n),
				// StartReseeding(every). Callers use them while others generate IDs.
				if ctl, ok := controlCall(fc, fd); ok {
					controls += ctl
					ctlNames += fmt.Sprintf("%q, ", "uu."+fd.Name.Name)
					continue
				}
				res := fd.Type.Results
				if res == nil || len(res.List) < 1 || len(res.List) > 2 || len(res.List[0].Names) > 1 {
					continue
				}
				withErr := false
				if len(res.List) == 2 {
					if id, ok := res.List[1].Type.(*ast.Ident); !ok || id.Name != "error" || len(res.List[1].Names) > 1 {
						continue
					}
					withErr = true
				}
				many := false
				switch t := res.List[0].Type.(type) {
				case *ast.Ident:
					if t.Name != "ID" {
						continue
					}
				case *ast.ArrayType:
					if id, ok := t.Elt.(*ast.Ident); !ok || id.Name != "ID" || t.Len != nil {
						continue
					}
					many = true
				default:
					continue
				}
				// parameters: any mix of at most one int and at most one context.Context
				var args []string
				okParams := true
				ints, ctxs := 0, 0
				if fd.Type.Params != nil {
					for _, f := range fd.Type.Params.List {
						k := len(f.Names)
						if k == 0 {
							k = 1
						}
						for j := 0; j < k; j++ {
							if id, ok := f.Type.(*ast.Ident); ok && id.Name == "int" {
								ints++
								args = append(args, "n")
							} else if se, ok := f.Type.(*ast.SelectorExpr); ok && se.Sel.Name == "Context" {
								ctxs++
								args = append(args, "vcontext.Pick(n)")
								needCtx = true
							} else {
								okParams = false
							}
						}
					}
				}
				if !okParams || ints > 1 || ctxs > 1 {
					continue
				}
				call := fmt.Sprintf("uu.%s(%s)", fd.Name.Name, strings.Join(args, ", "))
				switch {
				case many && withErr:
					sources += fmt.Sprintf("\tfunc(n int) []uu.ID { ids, err := %s; if err != nil { return nil }; return ids },\n", call)
				case many:
					sources += fmt.Sprintf("\tfunc(n int) []uu.ID { return %s },\n", call)
				case withErr:
					sources += fmt.Sprintf("\tfunc(n int) []uu.ID { id, err := %s; if err != nil { return nil }; return []uu.ID{id} },\n", call)
				default:
					sources += fmt.Sprintf("\tfunc(n int) []uu.ID { return []uu.ID{%s} },\n", call)
				}
				srcNames += fmt.Sprintf("%q, ", "uu."+fd.Name.Name)
				uuAlias = "\tuu \"go.lstv.dev/util/uu\"\n"
			}
		}
	}
	_ = uuAlias
	fullImports := imports + "\tuu \"go.lstv.dev/util/uu\"\n"
	if needCtx {
		fullImports += "\tvcontext \"" + base + "vcontext\"\n"
	}
	fullImports = "\t\"math/rand\"\n\n" + fullImports
	if strings.Contains(controls, "time.Duration(") {
		fullImports = "\t\"time\"\n" + fullImports
	}
	if resetOnly {
		src := fmt.Sprintf("// Code generated by vsim rewrite. DO NOT EDIT.\n\npackage %s\n\nimport (\n%s)\n\n// resetPackages re-initialises the package-level state of the packages under test.\nfunc resetPackages() {\n%s}\n", filepath.Base(filepath.Dir(out)), imports, calls)
		if err := os.WriteFile(out, []byte(src), 0o644); err != nil {
			die(err)
		}
		fmt.Printf("reset functions generated for %s\n", strings.Join(dirs, ","))
		return
	}
	src := fmt.Sprintf(`// Code generated by vsim rewrite. DO NOT EDIT.

package c19

import (
%s)

// resetPackages re-initialises the package-level state of the substituted packages.
func resetPackages() {
%s}

// Verdict of the static scan of the import-substituted packages.
var (
	ScanI2          = %v
	ScanUsesSync    = %v
	ScanUnsupported = %q
	ScanNote        = %q
	ScanVarNames    = []string{%s}
)

// ExtraSources are the other exported functions of package uu that hand out IDs.
var ExtraSources = []func(n int) []uu.ID{
%s}

// ExtraSourceNames names them.
var ExtraSourceNames = []string{%s}

// ExtraCallbacks are exported functions of package uu that lend a generator to a callback.
var ExtraCallbacks = []func(cb func(*rand.Rand)){
%s}

// ExtraCallbackNames names them.
var ExtraCallbackNames = []string{%s}

// ExtraControls are exported functions of package uu that return no ID and take small
// arguments: configuration and maintenance calls (a is a small tape-chosen number).
var ExtraControls = []func(a int){
%s}

// ExtraControlNames names them.
var ExtraControlNames = []string{%s}
`, fullImports, calls, len(i2off) == 0, usesSync, strings.Join(unsupported, "; "), note, names, sources, srcNames, callbacks, cbNames, controls, ctlNames)
	if err := os.WriteFile(out, []byte(src), 0o644); err != nil {
		die(err)
	}
	fmt.Println(note)
}

// controlCall renders the call of a control function, or reports that fd is none.
func controlCall(fc *fileCtx, fd *ast.FuncDecl) (string, bool) {
	if rs := fd.Type.Results; rs != nil && len(rs.List) > 0 {
		if len(rs.List) != 1 || len(rs.List[0].Names) > 1 {
			return "", false
		}
		if id, ok := rs.List[0].Type.(*ast.Ident); !ok || (id.Name != "error" && id.Name != "bool") {
			return "", false
		}
	}
	var args []string
	if fd.Type.Params != nil {
		for _, f := range fd.Type.Params.List {
			k := len(f.Names)
			if k == 0 {
				k = 1
			}
			for j := 0; j < k; j++ {
				switch t := f.Type.(type) {
				case *ast.Ident:
					switch t.Name {
					case "int":
						args = append(args, "a")
					case "int64", "uint64", "int32", "uint32", "uint":
						args = append(args, t.Name+"(a)")
					case "bool":
						args = append(args, "a%2 == 1")
					default:
						return "", false
					}
				case *ast.SelectorExpr:
					id, ok := t.X.(*ast.Ident)
					if !ok || t.Sel.Name != "Duration" || fc.imports[id.Name] != "time" {
						return "", false
					}
					args = append(args, "time.Duration(a) * time.Millisecond")
				default:
					return "", false
				}
			}
		}
	}
	if len(args) > 2 {
		return "", false
	}
	call := fmt.Sprintf("uu.%s(%s)", fd.Name.Name, strings.Join(args, ", "))
	if fd.Type.Results != nil && len(fd.Type.Results.List) == 1 {
		call = "_ = " + call
	}
	return fmt.Sprintf("\tfunc(a int) { %s },\n", call), true
}

func die(err error) {
	fmt.Fprintf(os.Stderr, "rewrite: %v\n", err)
	os.Exit(2)
}

func loadPkg(root, dir string) *pkgCtx {
	ents, err := os.ReadDir(filepath.Join(root, dir))
	if err != nil {
		return nil
	}
	p := &pkgCtx{dir: dir, vars: map[string]bool{}, specs: map[interface{}]bool{}, syncLike: map[string]bool{}, instr: map[string]int{}, chans: map[string]bool{}}
	for _, e := range ents {
		name := e.Name()
		if e.IsDir() || !strings.HasSuffix(name, ".go") || strings.HasSuffix(name, "_test.go") || strings.HasPrefix(name, "vsim_") {
			continue
		}
		path := filepath.Join(root, dir, name)
		src, err := os.ReadFile(path)
		if err != nil {
			die(err)
		}
		fset := token.NewFileSet()
		f, err := parser.ParseFile(fset, path, src, parser.ParseComments)
		if err != nil {
			die(err)
		}
		p.name = f.Name.Name
		fc := &fileCtx{path: path, rel: filepath.Join(dir, name), fset: fset, f: f, src: src, need: map[string]bool{}, skip: map[ast.Node]bool{}}
		fc.imports = map[string]string{}
		for _, imp := range f.Imports {
			ip, _ := strconv.Unquote(imp.Path.Value)
			local := ""
			if s, ok := subst[ip]; ok {
				local = s[1]
			}
			if imp.Name != nil {
				local = imp.Name.Name
			}
			if imp.Name != nil {
				fc.imports[imp.Name.Name] = ip
			} else {
				fc.imports[ip[strings.LastIndex(ip, "/")+1:]] = ip
			}
			switch ip {
			case "runtime":
				fc.runtimeName = "runtime"
				if imp.Name != nil {
					fc.runtimeName = imp.Name.Name
				}
			case "sync":
				fc.sync = local
				usesSync = true
			case "sync/atomic":
				fc.atomic = local
			case "unsafe":
				notes = append(notes, fc.rel+": imports unsafe")
			}
		}
		p.files = append(p.files, fc)
	}
	if len(p.files) == 0 {
		return nil
	}
	return p
}

func rootIdent(e ast.Expr) *ast.Ident {
	for {
		switch x := e.(type) {
		case *ast.Ident:
			return x
		case *ast.SelectorExpr:
			e = x.X
		case *ast.IndexExpr:
			e = x.X
		case *ast.StarExpr:
			e = x.X
		case *ast.ParenExpr:
			e = x.X
		case *ast.SliceExpr:
			e = x.X
		default:
			return nil
		}
	}
}

// pathOf returns the access path of an expression rooted at an identifier: the root name
// followed by the field selectors, with "[]" for every indexing step ("gen", "gen.count",
// "shards[].drawn"); slicing, dereferencing and parentheses do not extend the path. ok is
// false for anything else (calls, literals).
func pathOf(e ast.Expr) (path string, root *ast.Ident, ok bool) {
	path, root, _, ok = pathIdx(e)
	return
}

// pathIdx is pathOf that also returns the index expressions along the path, outermost last.
func pathIdx(e ast.Expr) (path string, root *ast.Ident, idx []ast.Expr, ok bool) {
	switch x := e.(type) {
	case *ast.Ident:
		return x.Name, x, nil, true
	case *ast.SelectorExpr:
		p, r, i, ok := pathIdx(x.X)
		if !ok {
			return "", nil, nil, false
		}
		return p + "." + x.Sel.Name, r, i, true
	case *ast.IndexExpr:
		p, r, i, ok := pathIdx(x.X)
		if !ok {
			return "", nil, nil, false
		}
		return p + "[]", r, append(i, x.Index), true
	case *ast.StarExpr:
		return pathIdx(x.X)
	case *ast.ParenExpr:
		return pathIdx(x.X)
	case *ast.SliceExpr:
		return pathIdx(x.X)
	}
	return "", nil, nil, false
}

// pure reports whether evaluating e twice is harmless (no calls, receives, or literals with
// function bodies): the index expressions of a hooked access are evaluated once more in the hook.
func pure(e ast.Expr) bool {
	ok := true
	ast.Inspect(e, func(n ast.Node) bool {
		switch x := n.(type) {
		case *ast.CallExpr, *ast.FuncLit:
			ok = false
		case *ast.UnaryExpr:
			if x.Op == token.ARROW {
				ok = false
			}
		}
		return ok
	})
	return ok
}

var lockMethods = map[string]bool{"Lock": true, "Unlock": true, "RLock": true, "RUnlock": true, "TryLock": true, "TryRLock": true, "RLocker": true}

func mentions(e ast.Node, pkgName string) bool {
	if e == nil || pkgName == "" {
		return false
	}
	found := false
	ast.Inspect(e, func(n ast.Node) bool {
		if s, ok := n.(*ast.SelectorExpr); ok {
			if id, ok := s.X.(*ast.Ident); ok && id.Name == pkgName && id.Obj == nil {
				found = true
			}
		}
		if _, ok := n.(*ast.FuncLit); ok {
			return false
		}
		return !found
	})
	return found
}

// rootVar resolves the root identifier of an access path to a package-level variable name:
// the variable itself, or the receiver of a method of a type that has exactly one
// package-level instance (the singleton pattern: var gen = newGenerator()).
func (p *pkgCtx) rootVar(id *ast.Ident) (string, bool) {
	if id == nil {
		return "", false
	}
	if id.Obj != nil {
		if v, ok := p.alias[id.Obj.Decl]; ok {
			return v, true
		}
	}
	if p.isPkgVar(id) {
		return id.Name, true
	}
	return "", false
}

// varPath is pathOf with the root resolved through rootVar.
func (p *pkgCtx) varPath(e ast.Expr) (string, bool) {
	path, root, ok := pathOf(e)
	if !ok {
		return "", false
	}
	v, ok := p.rootVar(root)
	if !ok {
		return "", false
	}
	return v + path[len(root.Name):], true
}

func typeName(e ast.Expr) string {
	switch x := e.(type) {
	case *ast.Ident:
		return x.Name
	case *ast.StarExpr:
		return typeName(x.X)
	case *ast.ParenExpr:
		return typeName(x.X)
	}
	return ""
}

// funcResults returns the type name of the first result of package function name (if any).
func (p *pkgCtx) funcResults(name string) []string {
	for _, fc := range p.files {
		for _, d := range fc.f.Decls {
			if fd, ok := d.(*ast.FuncDecl); ok && fd.Recv == nil && fd.Name.Name == name && fd.Type.Results != nil && len(fd.Type.Results.List) > 0 {
				if tn := typeName(fd.Type.Results.List[0].Type); tn != "" {
					return []string{tn}
				}
			}
		}
	}
	return nil
}

// singletons finds the types with exactly one package-level instance and maps the receivers
// of their methods to that variable.
func (p *pkgCtx) singletons() {
	p.alias = map[interface{}]string{}
	results := map[string]string{} // package function -> type name of its first result
	for _, fc := range p.files {
		for _, d := range fc.f.Decls {
			if fd, ok := d.(*ast.FuncDecl); ok && fd.Recv == nil && fd.Type.Results != nil && len(fd.Type.Results.List) > 0 {
				if tn := typeName(fd.Type.Results.List[0].Type); tn != "" {
					results[fd.Name.Name] = tn
				}
			}
		}
	}
	inst := map[string][]string{}
	for _, fc := range p.files {
		for _, d := range fc.f.Decls {
			gd, ok := d.(*ast.GenDecl)
			if !ok || gd.Tok != token.VAR {
				continue
			}
			for _, sp := range gd.Specs {
				vs := sp.(*ast.ValueSpec)
				for i, n := range vs.Names {
					tn := ""
					if vs.Type != nil {
						tn = typeName(vs.Type)
					} else if i < len(vs.Values) {
						switch x := vs.Values[i].(type) {
						case *ast.CompositeLit:
							tn = typeName(x.Type)
						case *ast.UnaryExpr:
							if cl, ok := x.X.(*ast.CompositeLit); ok {
								tn = typeName(cl.Type)
							}
						case *ast.CallExpr:
							if id, ok := x.Fun.(*ast.Ident); ok {
								if id.Name == "new" && len(x.Args) == 1 {
									tn = typeName(x.Args[0])
								} else {
									tn = results[id.Name]
								}
							}
						}
					}
					if _, declared := p.types[tn]; declared && n.Name != "_" {
						inst[tn] = append(inst[tn], n.Name)
					}
				}
			}
		}
	}
	// "exactly one instance" has to hold at run time, not only among the package-level
	// variables: a type that is created anywhere else (a second composite literal, a constructor
	// that is exported or called twice) has other instances, and attributing their fields to
	// the one variable would invent races between objects that share nothing
	lits, ctorCalls, exportedCtor := map[string]int{}, map[string]int{}, map[string]bool{}
	for fn, tn := range results {
		if ast.IsExported(fn) {
			exportedCtor[tn] = true
		}
	}
	for _, fc := range p.files {
		ast.Inspect(fc.f, func(n ast.Node) bool {
			switch x := n.(type) {
			case *ast.CompositeLit:
				if x.Type != nil {
					lits[typeName(x.Type)]++
				}
			case *ast.CallExpr:
				if id, ok := x.Fun.(*ast.Ident); ok {
					if id.Name == "new" && len(x.Args) == 1 {
						lits[typeName(x.Args[0])]++
					} else if tn, ok := results[id.Name]; ok {
						ctorCalls[tn]++
					}
				}
			}
			return true
		})
	}
	for _, fc := range p.files {
		for _, d := range fc.f.Decls {
			fd, ok := d.(*ast.FuncDecl)
			if !ok || fd.Recv == nil || len(fd.Recv.List) != 1 || len(fd.Recv.List[0].Names) != 1 {
				continue
			}
			tn := typeName(fd.Recv.List[0].Type)
			if vs := inst[tn]; len(vs) == 1 && lits[tn] <= 1 && ctorCalls[tn] <= 1 && !exportedCtor[tn] {
				p.alias[fd.Recv.List[0]] = vs[0]
			}
		}
	}
}

// isPkgVarLoose is isPkgVar for contexts where classify has not run (reset-only mode): it
// collects the package-level var names on first use.
func (p *pkgCtx) isPkgVarLoose(id *ast.Ident) bool {
	if len(p.vars) == 0 {
		for _, fc := range p.files {
			for _, d := range fc.f.Decls {
				if gd, ok := d.(*ast.GenDecl); ok && gd.Tok == token.VAR {
					for _, sp := range gd.Specs {
						vs := sp.(*ast.ValueSpec)
						p.specs[vs] = true
						for _, n := range vs.Names {
							if n.Name != "_" {
								p.vars[n.Name] = true
							}
						}
					}
				}
			}
		}
	}
	return p.isPkgVar(id)
}

func (p *pkgCtx) isPkgVar(id *ast.Ident) bool {
	if id == nil || !p.vars[id.Name] {
		return false
	}
	if id.Obj == nil {
		return true
	}
	return p.specs[id.Obj.Decl]
}

func isChanExpr(e ast.Expr) bool {
	switch x := e.(type) {
	case *ast.ChanType:
		return true
	case *ast.ParenExpr:
		return isChanExpr(x.X)
	case *ast.CallExpr:
		if id, ok := x.Fun.(*ast.Ident); ok && id.Name == "make" && len(x.Args) > 0 {
			return isChanExpr(x.Args[0])
		}
	}
	return false
}

// namedChans finds the channel types the package declares (type X chan T). One without methods
// becomes an alias of the simulated channel type, so every operation on it is rewritten like
// those on a plain channel; one with methods becomes struct{ *vchan.Chan[T] }: send, receive,
// close, len and cap still work through the embedded pointer, methods can be declared on it,
// and where a bare channel is needed (select clauses, comparison with nil) the names declared
// with such a type get a ".Chan" appended (by name, like everything else here).
func (p *pkgCtx) namedChans() {
	if p.namedChan != nil {
		return
	}
	p.namedChan, p.chanStruct, p.structVars = map[string]bool{}, map[string]bool{}, map[string]bool{}
	p.importDirs = map[string]string{}
	for _, fc := range p.files {
		for local, ip := range fc.imports {
			if strings.HasPrefix(ip, "go.lstv.dev/util/") {
				p.importDirs[local] = strings.TrimPrefix(ip, "go.lstv.dev/util/")
			}
		}
		for _, d := range fc.f.Decls {
			if gd, ok := d.(*ast.GenDecl); ok && gd.Tok == token.TYPE {
				for _, sp := range gd.Specs {
					ts := sp.(*ast.TypeSpec)
					if _, ok := ts.Type.(*ast.ChanType); ok && !ts.Assign.IsValid() {
						p.namedChan[ts.Name.Name] = true
						if ts.TypeParams != nil {
							p.chanStruct[ts.Name.Name] = true // there are no generic aliases: always the struct form
						}
					}
				}
			}
		}
	}
	for _, fc := range p.files {
		for _, d := range fc.f.Decls {
			if fd, ok := d.(*ast.FuncDecl); ok && fd.Recv != nil && len(fd.Recv.List) == 1 {
				t := fd.Recv.List[0].Type
				if st, ok := t.(*ast.StarExpr); ok {
					t = st.X
				}
				if ix, ok := t.(*ast.IndexExpr); ok {
					t = ix.X
				}
				if ix, ok := t.(*ast.IndexListExpr); ok {
					t = ix.X
				}
				if id, ok := t.(*ast.Ident); ok && p.namedChan[id.Name] {
					p.chanStruct[id.Name] = true
				}
			}
		}
	}
}

// namedChanRef: does the type expression name a channel type declared in this module (X, X[T],
// pkg.X, pkg.X[T])? struct reports whether that type is rewritten to the struct form.
func (p *pkgCtx) namedChanRef(e ast.Expr) (is, strct bool) {
	switch x := e.(type) {
	case *ast.Ident:
		return p.namedChan[x.Name], p.chanStruct[x.Name]
	case *ast.IndexExpr:
		return p.namedChanRef(x.X)
	case *ast.IndexListExpr:
		return p.namedChanRef(x.X)
	case *ast.SelectorExpr:
		if id, ok := x.X.(*ast.Ident); ok && id.Obj == nil {
			if dir, ok := p.importDirs[id.Name]; ok {
				return allNamedChanAlias[dir][x.Sel.Name], allNamedChans[dir][x.Sel.Name]
			}
		}
	case *ast.ParenExpr:
		return p.namedChanRef(x.X)
	}
	return false, false
}

func (p *pkgCtx) isChanTypeExpr(e ast.Expr) bool {
	if is, _ := p.namedChanRef(e); is {
		return true
	}
	switch x := e.(type) {
	case *ast.Ident:
		return p.namedChan[x.Name]
	case *ast.ParenExpr:
		return p.isChanTypeExpr(x.X)
	case *ast.TypeAssertExpr:
		// ch := v.Load().(chan T): a channel kept in an atomic.Value or an interface
		return x.Type != nil && p.isChanTypeExpr(x.Type)
	case *ast.CallExpr:
		if id, ok := x.Fun.(*ast.Ident); ok && id.Name == "make" && len(x.Args) > 0 {
			return p.isChanTypeExpr(x.Args[0])
		}
		if id, ok := x.Fun.(*ast.Ident); ok && p.namedChan[id.Name] && len(x.Args) == 1 {
			return true // conversion X(c)
		}
	}
	return isChanExpr(e)
}

func (p *pkgCtx) structChanTypeExpr(e ast.Expr) bool {
	if is, st := p.namedChanRef(e); is {
		return st
	}
	switch x := e.(type) {
	case *ast.Ident:
		return p.chanStruct[x.Name]
	case *ast.ParenExpr:
		return p.structChanTypeExpr(x.X)
	case *ast.CallExpr:
		if id, ok := x.Fun.(*ast.Ident); ok && id.Name == "make" && len(x.Args) > 0 {
			return p.structChanTypeExpr(x.Args[0])
		}
	}
	return false
}

func (p *pkgCtx) isStructChanName(e ast.Expr) bool {
	switch x := e.(type) {
	case *ast.Ident:
		return p.structVars[x.Name]
	case *ast.SelectorExpr:
		return p.structVars[x.Sel.Name]
	case *ast.ParenExpr:
		return p.isStructChanName(x.X)
	}
	return false
}

// chanNames records every name the package declares with a channel type (variables, struct
// fields, parameters, results, locals made with make(chan ...)): without type information
// this is how len(ch), cap(ch) and range over a channel are recognised.
func (p *pkgCtx) chanNames() {
	p.namedChans()
	p.chanFuncs, p.timeNames = map[string]bool{}, map[string]bool{}
	for _, fc := range p.files {
		for local, ip := range fc.imports {
			if ip == "time" {
				p.timeNames[local] = true
			}
		}
		for _, d := range fc.f.Decls {
			if fd, ok := d.(*ast.FuncDecl); ok && fd.Type.Results != nil && len(fd.Type.Results.List) == 1 && len(fd.Type.Results.List[0].Names) <= 1 {
				if p.isChanTypeExpr(fd.Type.Results.List[0].Type) {
					p.chanFuncs[fd.Name.Name] = true
				}
			}
		}
	}
	mark := func(name string, typ ast.Expr, val ast.Expr) {
		if (typ != nil && p.isChanTypeExpr(typ)) || (val != nil && p.isChanTypeExpr(val)) {
			p.chans[name] = true
		}
		if (typ != nil && p.structChanTypeExpr(typ)) || (val != nil && p.structChanTypeExpr(val)) {
			p.structVars[name] = true
		}
	}
	for _, fc := range p.files {
		ast.Inspect(fc.f, func(n ast.Node) bool {
			switch x := n.(type) {
			case *ast.ValueSpec:
				for i, nm := range x.Names {
					var v ast.Expr
					if i < len(x.Values) {
						v = x.Values[i]
					}
					mark(nm.Name, x.Type, v)
				}
			case *ast.Field:
				for _, nm := range x.Names {
					mark(nm.Name, x.Type, nil)
				}
			case *ast.AssignStmt:
				if len(x.Lhs) == len(x.Rhs) {
					for i := range x.Lhs {
						switch l := x.Lhs[i].(type) {
						case *ast.Ident:
							mark(l.Name, nil, x.Rhs[i])
						case *ast.SelectorExpr:
							mark(l.Sel.Name, nil, x.Rhs[i])
						}
					}
				}
			}
			return true
		})
	}
}

func (p *pkgCtx) isChanName(e ast.Expr) bool {
	switch x := e.(type) {
	case *ast.CallExpr:
		// time.Tick(d), time.After(d), and calls of functions the package declares with a
		// channel result
		switch f := x.Fun.(type) {
		case *ast.SelectorExpr:
			if (f.Sel.Name == "Tick" || f.Sel.Name == "After") && len(x.Args) == 1 {
				if id, ok := f.X.(*ast.Ident); ok && id.Obj == nil && (id.Name == "time" || p.timeNames[id.Name]) {
					return true
				}
			}
			return p.chanFuncs[f.Sel.Name]
		case *ast.Ident:
			return p.chanFuncs[f.Name]
		}
		return false
	case *ast.Ident:
		return p.chans[x.Name]
	case *ast.SelectorExpr:
		if x.Sel.Name == "C" {
			return true // the channel of a time.Timer / time.Ticker
		}
		return p.chans[x.Sel.Name]
	case *ast.ParenExpr:
		return p.isChanName(x.X)
	}
	return false
}

// structFields returns the field names of a struct type expression whose types mention the
// sync or sync/atomic package (embedded fields go by their type name).
func (p *pkgCtx) syncFields(fc *fileCtx, t ast.Expr, depth int) []string {
	if depth > 3 {
		return nil
	}
	switch x := t.(type) {
	case *ast.StructType:
		var out []string
		for _, f := range x.Fields.List {
			if mentions(f.Type, fc.sync) || mentions(f.Type, fc.atomic) {
				if len(f.Names) == 0 {
					// embedded: sync.Mutex -> field Mutex, and the struct itself takes the methods
					ty := f.Type
					if st, ok := ty.(*ast.StarExpr); ok {
						ty = st.X
					}
					if sel, ok := ty.(*ast.SelectorExpr); ok {
						out = append(out, sel.Sel.Name, "")
					}
				}
				for _, n := range f.Names {
					out = append(out, n.Name)
				}
			}
		}
		return out
	case *ast.Ident:
		if td, ok := p.types[x.Name]; ok {
			return p.syncFields(td.fc, td.expr, depth+1)
		}
	case *ast.StarExpr:
		return p.syncFields(fc, x.X, depth+1)
	case *ast.UnaryExpr:
		return p.syncFields(fc, x.X, depth+1)
	case *ast.CompositeLit:
		return p.syncFields(fc, x.Type, depth+1)
	}
	return nil
}

// classify finds the package-level variables and decides which access paths are instrumented.
func (p *pkgCtx) classify() {
	p.chanNames()
	p.types = map[string]typeDecl{}
	for _, fc := range p.files {
		for _, d := range fc.f.Decls {
			if gd, ok := d.(*ast.GenDecl); ok && gd.Tok == token.TYPE {
				for _, sp := range gd.Specs {
					ts := sp.(*ast.TypeSpec)
					p.types[ts.Name.Name] = typeDecl{fc, ts.Type}
				}
			}
		}
	}
	// package-level var names and specs first (singletons needs them)
	for _, fc := range p.files {
		for _, d := range fc.f.Decls {
			if gd, ok := d.(*ast.GenDecl); ok && gd.Tok == token.VAR {
				for _, sp := range gd.Specs {
					vs := sp.(*ast.ValueSpec)
					p.specs[vs] = true
					for _, n := range vs.Names {
						if n.Name != "_" {
							p.vars[n.Name] = true
						}
					}
				}
			}
		}
	}
	p.singletons()
	p.ptrDecl = map[interface{}]bool{}
	p.methods = map[string]bool{}
	for _, fc := range p.files {
		ast.Inspect(fc.f, func(n ast.Node) bool {
			var ft *ast.FuncType
			switch x := n.(type) {
			case *ast.FuncDecl:
				ft = x.Type
				if x.Recv != nil {
					p.methods[x.Name.Name] = true
					for _, f := range x.Recv.List {
						if _, ok := f.Type.(*ast.StarExpr); ok {
							p.ptrDecl[f] = true
						}
					}
				}
			case *ast.FuncLit:
				ft = x.Type
			case *ast.InterfaceType:
				for _, m := range x.Methods.List {
					for _, nm := range m.Names {
						p.methods[nm.Name] = true
					}
				}
			}
			if ft != nil && ft.Params != nil {
				for _, f := range ft.Params.List {
					if _, ok := f.Type.(*ast.StarExpr); ok {
						p.ptrDecl[f] = true
					}
				}
			}
			return true
		})
	}
	for _, fc := range p.files {
		for _, d := range fc.f.Decls {
			gd, ok := d.(*ast.GenDecl)
			if !ok || gd.Tok != token.VAR {
				continue
			}
			for _, sp := range gd.Specs {
				vs := sp.(*ast.ValueSpec)
				p.specs[vs] = true
				like := false
				var fields []string
				if vs.Type != nil {
					if _, isStruct := vs.Type.(*ast.StructType); !isStruct && (mentions(vs.Type, fc.sync) || mentions(vs.Type, fc.atomic)) {
						like = true
					}
					fields = p.syncFields(fc, vs.Type, 0)
				}
				for _, v := range vs.Values {
					switch x := v.(type) {
					case *ast.CompositeLit:
						if _, isStruct := x.Type.(*ast.StructType); !isStruct && (mentions(x.Type, fc.sync) || mentions(x.Type, fc.atomic)) {
							like = true
						}
						fields = append(fields, p.syncFields(fc, x, 0)...)
					case *ast.UnaryExpr:
						if cl, ok := x.X.(*ast.CompositeLit); ok {
							if mentions(cl.Type, fc.sync) || mentions(cl.Type, fc.atomic) {
								if _, isStruct := cl.Type.(*ast.StructType); !isStruct {
									like = true
								}
							}
							fields = append(fields, p.syncFields(fc, cl, 0)...)
						}
					case *ast.CallExpr:
						if s, ok := x.Fun.(*ast.SelectorExpr); ok {
							if id, ok := s.X.(*ast.Ident); ok && id.Obj == nil && id.Name == fc.sync && fc.sync != "" {
								like = true // sync.NewCond(...)
							}
						}
					}
				}
				for i, n := range vs.Names {
					if n.Name == "_" {
						continue
					}
					p.vars[n.Name] = true
					if like {
						p.syncLike[n.Name] = true
					}
					if fc.unsafeObjExpr(vs.Type) || (i < len(vs.Values) && len(vs.Values) == len(vs.Names) && fc.unsafeObjExpr(vs.Values[i])) {
						if p.unsafeObj == nil {
							p.unsafeObj = map[string]bool{}
						}
						p.unsafeObj[n.Name] = true
					}
					if i < len(vs.Values) {
						if call, ok := vs.Values[i].(*ast.CallExpr); ok {
							if id, ok := call.Fun.(*ast.Ident); ok {
								for tn, td := range p.types {
									for _, fd := range p.funcResults(id.Name) {
										if fd == tn {
											fields = append(fields, p.syncFields(td.fc, td.expr, 0)...)
										}
									}
								}
							}
						}
					}
					for _, f := range fields {
						if f == "" {
							p.syncLike[n.Name] = true // embedded lock: the variable itself is locked
						} else {
							p.syncLike[n.Name+"."+f] = true
						}
					}
				}
			}
		}
	}
	written := map[string]bool{}
	for _, fc := range p.files {
		for _, d := range fc.f.Decls {
			fd, ok := d.(*ast.FuncDecl)
			if !ok || fd.Body == nil {
				continue
			}
			ast.Inspect(fd.Body, func(n ast.Node) bool {
				note := func(e ast.Expr) {
					if path, ok := p.varPath(e); ok {
						written[path] = true
					}
				}
				switch x := n.(type) {
				case *ast.AssignStmt:
					if x.Tok != token.DEFINE {
						for _, l := range x.Lhs {
							note(l)
						}
					}
				case *ast.IncDecStmt:
					note(x.X)
				case *ast.RangeStmt:
					if x.Tok == token.ASSIGN {
						for _, l := range []ast.Expr{x.Key, x.Value} {
							if l != nil {
								note(l)
							}
						}
					}
				case *ast.CallExpr:
					if s, ok := x.Fun.(*ast.SelectorExpr); ok {
						// a path that is locked is a synchronisation object, not data
						if lockMethods[s.Sel.Name] {
							if path, ok := p.varPath(s.X); ok {
								p.syncLike[path] = true
							}
						}
						if id, ok := s.X.(*ast.Ident); ok && fc.atomic != "" && id.Name == fc.atomic && id.Obj == nil {
							for _, a := range x.Args {
								if u, ok := a.(*ast.UnaryExpr); ok && u.Op == token.AND {
									note(u.X)
								}
							}
						}
					}
				}
				return true
			})
		}
	}
	for n := range p.unsafeObj {
		// using such an object changes it, whether or not the variable is ever assigned
		written[n] = true
	}
	var names []string
	for n := range written {
		if !p.syncLike[n] {
			names = append(names, n)
		}
	}
	sort.Strings(names)
	for _, n := range names {
		p.instr[n] = len(varNames)
		varNames = append(varNames, p.name+"."+n)
	}
}

// access collection -----------------------------------------------------------------

type accs struct {
	p      *pkgCtx
	fc     *fileCtx
	reads  map[string]bool // "id" or "id, index, index" (the hook's argument list)
	writes map[string]bool
	pr, pw map[string]bool // field accesses through pointer parameters / receivers: source text of the field expression
}

// ptrField reports whether e is a pure field selector chain rooted at a pointer-typed
// parameter or receiver that is not resolved to a package-level variable.
func (a *accs) ptrField(e ast.Expr) (string, bool) {
	se, ok := e.(*ast.SelectorExpr)
	if !ok {
		return "", false
	}
	x := ast.Expr(se)
	for {
		sx, ok := x.(*ast.SelectorExpr)
		if !ok {
			break
		}
		if a.p.methods[sx.Sel.Name] {
			return "", false
		}
		x = sx.X
	}
	id, ok := x.(*ast.Ident)
	if !ok || id.Obj == nil || !a.p.ptrDecl[id.Obj.Decl] {
		return "", false
	}
	if _, aliased := a.p.alias[id.Obj.Decl]; aliased {
		return "", false
	}
	return a.fc.text(e), true
}

func (a *accs) notePtr(e ast.Expr, write bool) bool {
	txt, ok := a.ptrField(e)
	if !ok {
		return false
	}
	if a.pr == nil {
		a.pr, a.pw = map[string]bool{}, map[string]bool{}
	}
	if write {
		a.pw[txt] = true
	} else {
		a.pr[txt] = true
	}
	return true
}

// note records an access to the path of e, if it is rooted at a package-level variable and
// that path is instrumented.
func (a *accs) note(e ast.Expr, write bool) bool {
	path, ok := a.p.varPath(e)
	if !ok {
		return false
	}
	if vid, ok := a.p.instr[path]; ok {
		_, _, idx, _ := pathIdx(e)
		args := strconv.Itoa(vid)
		for _, ix := range idx {
			if !pure(ix) {
				// cannot evaluate the index twice: this access goes unobserved
				return true
			}
			args += ", " + a.fc.text(ix)
		}
		if write {
			a.writes[args] = true
		} else {
			a.reads[args] = true
		}
	}
	return true
}

// expr collects accesses in an expression, not descending into function literals.
func (a *accs) expr(e ast.Node) {
	if e == nil {
		return
	}
	ast.Inspect(e, func(n ast.Node) bool {
		switch x := n.(type) {
		case *ast.FuncLit:
			return false
		case *ast.CallExpr:
			if s, ok := x.Fun.(*ast.SelectorExpr); ok {
				// &v handed to sync/atomic is not a plain access
				if id, ok := s.X.(*ast.Ident); ok && a.fc.atomic != "" && id.Name == a.fc.atomic && id.Obj == nil {
					for _, arg := range x.Args {
						if u, ok := arg.(*ast.UnaryExpr); ok && u.Op == token.AND {
							if _, ok := a.p.varPath(u.X); ok {
								continue
							}
							if _, ok := a.ptrField(u.X); ok {
								continue
							}
						}
						a.expr(arg)
					}
					return false
				}
				// r.M(...) on a pointer parameter r whose type lives elsewhere (*rand.Rand): M is a
				// method, not a field to take the address of
				if _, ok := a.ptrField(s); ok {
					for _, arg := range x.Args {
						a.expr(arg)
					}
					return false
				}
				// a method called on a field reached through a pointer: not observed (it may be a
				// lock, a channel, a generator with its own model)
				if _, ok := a.ptrField(s.X); ok {
					for _, arg := range x.Args {
						a.expr(arg)
					}
					return false
				}
				// the receiver of a method call is read (unless it is a lock)
				if path, ok := a.p.varPath(s.X); ok {
					if !a.p.syncLike[path] {
						// a stateful standard-library object: using it changes it, except through the
						// handful of methods that only look
						a.note(s.X, a.p.unsafeObj[path] && !readOnlyMethods[s.Sel.Name])
					}
					a.indices(s.X)
					for _, arg := range x.Args {
						a.expr(arg)
					}
					return false
				}
			}
		case *ast.SelectorExpr, *ast.IndexExpr, *ast.StarExpr, *ast.SliceExpr:
			if a.note(x.(ast.Expr), false) {
				a.indices(x.(ast.Expr))
				return false
			}
			if a.notePtr(x.(ast.Expr), false) {
				return false
			}
		case *ast.KeyValueExpr:
			// struct literal keys are field names, not variables
			a.expr(x.Value)
			if _, isIdent := x.Key.(*ast.Ident); !isIdent {
				a.expr(x.Key)
			}
			return false
		case *ast.Ident:
			// a stateful standard-library object handed to somebody (io.ReadFull(r, b),
			// fmt.Fprintf(w, ...)) is going to be used, which changes it
			a.note(x, a.p.unsafeObj[x.Name] && a.p.isPkgVar(x))
		}
		return true
	})
}

// indices scans the index expressions along an access path (they are reads of their own).
func (a *accs) indices(e ast.Expr) {
	switch x := e.(type) {
	case *ast.SelectorExpr:
		a.indices(x.X)
	case *ast.IndexExpr:
		a.expr(x.Index)
		a.indices(x.X)
	case *ast.SliceExpr:
		a.expr(x.Low)
		a.expr(x.High)
		a.expr(x.Max)
		a.indices(x.X)
	case *ast.StarExpr:
		a.indices(x.X)
	case *ast.ParenExpr:
		a.indices(x.X)
	}
}

func (a *accs) lhs(e ast.Expr) {
	if a.note(e, true) {
		a.indices(e)
		return
	}
	if a.notePtr(e, true) {
		return
	}
	a.expr(e)
}

// shallow collects the accesses that belong to the statement itself (not to nested blocks).
func (a *accs) shallow(s ast.Stmt) {
	switch x := s.(type) {
	case *ast.AssignStmt:
		for _, r := range x.Rhs {
			a.expr(r)
		}
		for _, l := range x.Lhs {
			if x.Tok == token.DEFINE {
				continue
			}
			a.lhs(l)
			if x.Tok != token.ASSIGN {
				a.expr(l) // x += 1 reads too
			}
		}
	case *ast.IncDecStmt:
		a.lhs(x.X)
	case *ast.ExprStmt:
		a.expr(x.X)
	case *ast.ReturnStmt:
		for _, r := range x.Results {
			a.expr(r)
		}
	case *ast.SendStmt:
		a.expr(x.Chan)
		a.expr(x.Value)
	case *ast.GoStmt:
		a.expr(x.Call)
	case *ast.DeferStmt:
		a.expr(x.Call)
	case *ast.DeclStmt:
		a.expr(x.Decl)
	case *ast.IfStmt:
		if x.Init != nil {
			a.shallow(x.Init)
		}
		a.expr(x.Cond)
		if e, ok := x.Else.(*ast.IfStmt); ok {
			a.shallow(e)
		}
	case *ast.ForStmt:
		if x.Init != nil {
			a.shallow(x.Init)
		}
		a.expr(x.Cond)
		if x.Post != nil {
			a.shallow(x.Post)
		}
	case *ast.RangeStmt:
		a.expr(x.X)
		if x.Tok == token.ASSIGN {
			if x.Key != nil {
				a.lhs(x.Key)
			}
			if x.Value != nil {
				a.lhs(x.Value)
			}
		}
	case *ast.SwitchStmt:
		if x.Init != nil {
			a.shallow(x.Init)
		}
		a.expr(x.Tag)
		for _, c := range x.Body.List {
			for _, e := range c.(*ast.CaseClause).List {
				a.expr(e)
			}
		}
	case *ast.TypeSwitchStmt:
		if x.Init != nil {
			a.shallow(x.Init)
		}
		a.shallow(x.Assign)
	case *ast.LabeledStmt:
		a.shallow(x.Stmt)
	}
}

// rewriting ------------------------------------------------------------------------

// onlyModelledSync: every sync.X the file mentions has a stand-in.
func (fc *fileCtx) onlyModelledSync() bool {
	if fc.sync == "" {
		return false
	}
	have := map[string]bool{"Mutex": true, "RWMutex": true, "Once": true, "WaitGroup": true, "Cond": true, "NewCond": true, "Locker": true, "OnceFunc": true, "OnceValue": true, "OnceValues": true, "Pool": true, "Map": true}
	ok := true
	ast.Inspect(fc.f, func(n ast.Node) bool {
		if s, isSel := n.(*ast.SelectorExpr); isSel {
			if id, isID := s.X.(*ast.Ident); isID && id.Name == fc.sync && id.Obj == nil && !have[s.Sel.Name] {
				ok = false
			}
		}
		return ok
	})
	return ok
}

func (p *pkgCtx) rewriteFile(fc *fileCtx) {
	f := fc.f
	// 1. imports
	for _, imp := range f.Imports {
		ip, _ := strconv.Unquote(imp.Path.Value)
		if resetOnly && (ip != "sync" || !fc.onlyModelledSync()) {
			// single-threaded checks (C17, C20) run the real packages; only "sync" is swapped,
			// because the real sync.Pool hands out per-P cached items and drops them at
			// garbage collections: a violation that depends on what a Get returns would not
			// replay. Outside a simulated run the stand-ins are plain single-threaded objects
			// (Pool: a LIFO stack).
			continue
		}
		s, ok := subst[ip]
		if !ok {
			continue
		}
		if imp.Name != nil && (imp.Name.Name == "_" || imp.Name.Name == ".") {
			if imp.Name.Name == "." {
				unsupported = append(unsupported, fc.rel+": dot-import of "+ip)
			}
			continue
		}
		if imp.Name == nil {
			fc.repl(imp.Path.Pos(), imp.Path.End(), s[1]+" "+strconv.Quote(s[0]))
		} else {
			fc.repl(imp.Path.Pos(), imp.Path.End(), strconv.Quote(s[0]))
		}
	}
	// 2. sync selectors without a happens-before model
	if fc.sync != "" && !resetOnly {
		modelled := map[string]bool{"Mutex": true, "RWMutex": true, "Once": true, "WaitGroup": true, "Cond": true, "NewCond": true, "Locker": true, "OnceFunc": true, "Pool": true, "Map": true}
		ast.Inspect(f, func(n ast.Node) bool {
			if s, ok := n.(*ast.SelectorExpr); ok {
				if id, ok := s.X.(*ast.Ident); ok && id.Name == fc.sync && id.Obj == nil && !modelled[s.Sel.Name] {
					i2off = append(i2off, fmt.Sprintf("%s:%d: uses sync.%s (no happens-before model)", fc.rel, fc.fset.Position(s.Pos()).Line, s.Sel.Name))
				}
			}
			return true
		})
	}
	// 3. channel types, make, close, receive, send, go, select (everywhere in the file)
	if !resetOnly {
		p.rewriteConcurrency(fc)
	}
	// 4. hooks and init renaming, function by function
	inits := 0
	for _, d := range f.Decls {
		fd, ok := d.(*ast.FuncDecl)
		if !ok || fd.Body == nil {
			continue
		}
		if fd.Recv == nil && fd.Name.Name == "init" {
			name := fmt.Sprintf("vsimInit%d_%d", len(p.resetFns), inits)
			inits++
			fc.repl(fd.Name.Pos(), fd.Name.End(), name)
			fc.edits = append(fc.edits, edit{len(fc.src), len(fc.src), fmt.Sprintf("\nfunc init() { %s() }\n", name), 9})
			p.resetFns = append(p.resetFns, name)
		}
		if !resetOnly {
			p.hookBlock(fc, fd.Body)
		}
	}
	// 5. reset function for this file's package-level vars
	var resets, depResets []string
	dependsOnVar := func(n ast.Node) bool {
		dep := false
		ast.Inspect(n, func(x ast.Node) bool {
			if id, ok := x.(*ast.Ident); ok && p.isPkgVarLoose(id) {
				dep = true
			}
			return !dep
		})
		return dep
	}
	for _, d := range f.Decls {
		gd, ok := d.(*ast.GenDecl)
		if !ok || gd.Tok != token.VAR {
			continue
		}
		for _, sp := range gd.Specs {
			vs := sp.(*ast.ValueSpec)
			var names []string
			allBlank := true
			for _, n := range vs.Names {
				names = append(names, n.Name)
				if n.Name != "_" {
					allBlank = false
				}
			}
			if allBlank {
				continue
			}
			if len(vs.Values) > 0 {
				var vals []string
				for _, v := range vs.Values {
					vals = append(vals, p.edited(fc, v))
				}
				line := strings.Join(names, ", ") + " = " + strings.Join(vals, ", ")
				resets = append(resets, line)
				for _, v := range vs.Values {
					if dependsOnVar(v) {
						// initialised from other package-level variables: run again after them
						depResets = append(depResets, line)
						break
					}
				}
			} else if vs.Type != nil {
				ty := p.edited(fc, vs.Type)
				for _, n := range names {
					if n != "_" {
						resets = append(resets, fmt.Sprintf("{ var z %s; %s = z }", ty, n))
					}
				}
			}
		}
	}
	if len(resets) > 0 {
		fn := fmt.Sprintf("vsimReset%d", len(p.resetFns))
		// var resets come before init re-runs of the same file
		p.resetFns = append([]string{fn}, p.resetFns...)
		fc.edits = append(fc.edits, edit{len(fc.src), len(fc.src), "\n// " + fn + " re-executes the package-level var initialisers of this file (generated by vsim rewrite);\n// on later passes only those that depend on other package-level variables.\nfunc " + fn + "(pass int) {\n\tif pass > 0 {\n\t\t" + strings.Join(append(depResets, "return"), "\n\t\t") + "\n\t}\n\t" + strings.Join(resets, "\n\t") + "\n}\n", 9})
	}
	if fc.goschedRewritten {
		// the runtime import may have no other use left
		fc.edits = append(fc.edits, edit{len(fc.src), len(fc.src), "\nvar _ = " + fc.runtimeName + ".GOOS\n", 9})
	}
	// 6. extra imports right after the package clause
	extra := ""
	for _, k := range []string{"vchan", "vsched", "vrace", "vunsafe"} {
		if fc.need[k] {
			path := base + k
			if k == "vsched" {
				path = base + "sched"
			}
			if k == "vunsafe" {
				path = "unsafe"
			}
			extra += fmt.Sprintf("\nimport %s %q", k, path)
		}
	}
	if extra != "" {
		fc.ins(f.Name.End(), extra+"\n", 0)
	}
	if len(fc.edits) == 0 {
		return
	}
	if err := os.WriteFile(fc.path, apply(fc.src, fc.edits), 0o644); err != nil {
		die(err)
	}
}

// edited returns the source text of n with the edits that fall inside it applied.
func (p *pkgCtx) edited(fc *fileCtx, n ast.Node) string {
	lo, hi := fc.off(n.Pos()), fc.off(n.End())
	var in []edit
	for _, e := range fc.edits {
		if e.start >= lo && e.end <= hi && !(e.start == e.end && e.prio == 0 && e.start == lo) {
			in = append(in, edit{e.start - lo, e.end - lo, e.text, e.prio})
		}
	}
	return string(apply(fc.src[lo:hi], in))
}

func apply(src []byte, edits []edit) []byte {
	sort.SliceStable(edits, func(i, j int) bool {
		if edits[i].start != edits[j].start {
			return edits[i].start < edits[j].start
		}
		return edits[i].prio < edits[j].prio
	})
	var out []byte
	pos := 0
	for _, e := range edits {
		if e.start < pos {
			// overlapping edit: keep the earlier one (reported as unsupported by the caller)
			continue
		}
		out = append(out, src[pos:e.start]...)
		out = append(out, e.text...)
		pos = e.end
	}
	return append(out, src[pos:]...)
}

func (p *pkgCtx) rewriteConcurrency(fc *fileCtx) {
	// parents of receive expressions that want the two-value form
	recv2 := map[ast.Node]bool{}
	inSelectComm := map[ast.Node]bool{}
	ast.Inspect(fc.f, func(n ast.Node) bool {
		switch x := n.(type) {
		case *ast.AssignStmt:
			if len(x.Lhs) == 2 && len(x.Rhs) == 1 {
				if u, ok := x.Rhs[0].(*ast.UnaryExpr); ok && u.Op == token.ARROW {
					recv2[u] = true
				}
			}
		case *ast.ValueSpec:
			if len(x.Names) == 2 && len(x.Values) == 1 {
				if u, ok := x.Values[0].(*ast.UnaryExpr); ok && u.Op == token.ARROW {
					recv2[u] = true
				}
			}
		case *ast.SelectStmt:
			p.rewriteSelect(fc, x, inSelectComm)
		}
		return true
	})
	ast.Inspect(fc.f, func(n ast.Node) bool {
		if n == nil || inSelectComm[n] {
			return !inSelectComm[n]
		}
		switch x := n.(type) {
		case *ast.GoStmt:
			fc.need["vsched"] = true
			if _, lit := x.Call.Fun.(*ast.FuncLit); lit && len(x.Call.Args) == 0 {
				fc.repl(x.Go, x.Call.Pos(), "vsched.Go(func() { ")
				fc.ins(x.Call.End(), " })", 6)
				break
			}
			// the function value and the arguments of a go statement are evaluated when the
			// statement executes, not when the goroutine starts: bind them first
			//   go f(a, b)  ->  func() { vsimF, vsimA0, vsimA1 := f, a, b; vsched.Go(func() { vsimF(vsimA0, vsimA1) }) }()
			// go panic(v) / go println(...): a built-in is no function value; bind the arguments only
			if id, ok := x.Call.Fun.(*ast.Ident); ok && id.Obj == nil && (id.Name == "panic" || id.Name == "print" || id.Name == "println") {
				if len(x.Call.Args) == 0 {
					fc.repl(x.Go, x.Call.Pos(), "vsched.Go(func() { ")
					fc.ins(x.Call.End(), " })", 6)
					break
				}
				var ns []string
				for i := range x.Call.Args {
					ns = append(ns, fmt.Sprintf("vsimA%d", i))
				}
				dots := ""
				if x.Call.Ellipsis.IsValid() {
					dots = "..."
				}
				fc.repl(x.Go, x.Call.Lparen+1, "func() { "+strings.Join(ns, ", ")+" := ")
				end := "; vsched.Go(func() { " + id.Name + "(" + strings.Join(ns, ", ") + dots + ") }) }()"
				if x.Call.Ellipsis.IsValid() {
					fc.repl(x.Call.Ellipsis, x.Call.Rparen+1, end)
				} else {
					fc.repl(x.Call.Rparen, x.Call.Rparen+1, end)
				}
				break
			}
			// go f(a) / go pkg.F(a) with f a declared function (maybe generic: no function value to
			// bind without instantiating it): bind the arguments only and call it by name
			directName := ""
			switch f := x.Call.Fun.(type) {
			case *ast.Ident:
				if f.Obj != nil && f.Obj.Kind == ast.Fun {
					directName = f.Name
				}
			case *ast.SelectorExpr:
				if id, ok := f.X.(*ast.Ident); ok && id.Obj == nil && p.importDirs[id.Name] != "" {
					directName = id.Name + "." + f.Sel.Name
				}
			}
			if directName != "" {
				if len(x.Call.Args) == 0 {
					fc.repl(x.Go, x.Call.Pos(), "vsched.Go(func() { ")
					fc.ins(x.Call.End(), " })", 6)
					break
				}
				var ns []string
				for i := range x.Call.Args {
					ns = append(ns, fmt.Sprintf("vsimA%d", i))
				}
				dots := ""
				if x.Call.Ellipsis.IsValid() {
					dots = "..."
				}
				fc.repl(x.Go, x.Call.Lparen+1, "func() { "+strings.Join(ns, ", ")+" := ")
				end := "; vsched.Go(func() { " + directName + "(" + strings.Join(ns, ", ") + dots + ") }) }()"
				if x.Call.Ellipsis.IsValid() {
					fc.repl(x.Call.Ellipsis, x.Call.Rparen+1, end)
				} else {
					fc.repl(x.Call.Rparen, x.Call.Rparen+1, end)
				}
				break
			}
			names := []string{"vsimF"}
			call := "vsimF("
			for i := range x.Call.Args {
				n := fmt.Sprintf("vsimA%d", i)
				names = append(names, n)
				if i > 0 {
					call += ", "
				}
				call += n
			}
			if x.Call.Ellipsis.IsValid() {
				call += "..."
			}
			call += ")"
			fc.repl(x.Go, x.Call.Fun.Pos(), "func() { "+strings.Join(names, ", ")+" := ")
			if len(x.Call.Args) > 0 {
				fc.repl(x.Call.Lparen, x.Call.Lparen+1, ", ")
			} else {
				fc.repl(x.Call.Lparen, x.Call.Lparen+1, "")
			}
			end := "; vsched.Go(func() { " + call + " }) }()"
			if x.Call.Ellipsis.IsValid() {
				fc.repl(x.Call.Ellipsis, x.Call.Rparen+1, end)
			} else {
				fc.repl(x.Call.Rparen, x.Call.Rparen+1, end)
			}
		case *ast.SendStmt:
			fc.ins(x.Chan.Pos(), "(", 3)
			fc.repl(x.Chan.End(), x.Value.Pos(), ").Send(")
			fc.ins(x.Value.End(), ")", 6)
		case *ast.UnaryExpr:
			if x.Op == token.ARROW {
				fc.repl(x.OpPos, x.X.Pos(), "(")
				if recv2[x] {
					fc.ins(x.X.End(), ").Recv2()", 6)
				} else {
					fc.ins(x.X.End(), ").Recv()", 6)
				}
			}
		case *ast.RangeStmt:
			// recognised by declared name only (no type information): a channel the scan did
			// not see makes the scratch build fail and the check exit 2
			if p.isChanName(x.X) && x.Tok != token.ASSIGN {
				v := "_"
				if x.Key != nil {
					v = fc.text(x.Key)
				}
				ch := "(" + fc.text(x.X) + ")"
				fc.repl(x.For+3, x.Body.Lbrace, fmt.Sprintf(" %s, vsimOk := %s.Recv2(); vsimOk; %s, vsimOk = %s.Recv2() ", v, ch, v, ch))
				inSelectComm[x.X] = true
			}
		case *ast.CallExpr:
			if se, ok := x.Fun.(*ast.SelectorExpr); ok {
				// the scheduler-facing part of package runtime is a seam too: yields, and what the
				// code believes about the number of processors and goroutines
				if id, ok := se.X.(*ast.Ident); ok && id.Obj == nil && id.Name == fc.runtimeName && fc.runtimeName != "" {
					switch se.Sel.Name {
					case "Gosched", "GOMAXPROCS", "NumCPU", "NumGoroutine", "Stack":
						fc.need["vsched"] = true
						fc.repl(se.Pos(), se.End(), "vsched."+se.Sel.Name)
						fc.goschedRewritten = true
					}
				}
			}
			if id, ok := x.Fun.(*ast.Ident); ok && id.Obj == nil {
				if id.Name == "make" && len(x.Args) >= 1 {
					if ct, ok := x.Args[0].(*ast.ChanType); ok {
						fc.need["vchan"] = true
						fc.skip[ct] = true
						fc.repl(x.Pos(), ct.Value.Pos(), "vchan.Make[")
						if len(x.Args) > 1 {
							fc.repl(ct.Value.End(), x.Args[1].Pos(), "](")
						} else {
							fc.repl(ct.Value.End(), x.Rparen, "](")
						}
					}
					// make(X, n) for a channel type X declared in the package
					if is, st := p.namedChanRef(x.Args[0]); is {
						fc.need["vchan"] = true
						name := fc.text(x.Args[0])
						if st {
							// X{vchan.MakeLike(X{}.Chan, n)}
							fc.repl(x.Pos(), x.Args[0].End(), name+"{vchan.MakeLike("+name+"{}.Chan")
							fc.repl(x.Rparen, x.Rparen+1, ")}")
						} else {
							// vchan.MakeLike(X(nil), n)
							fc.repl(x.Pos(), x.Args[0].End(), "vchan.MakeLike("+name+"(nil)")
						}
					}
				}
				if (id.Name == "len" || id.Name == "cap") && len(x.Args) == 1 && p.isChanName(x.Args[0]) {
					m := ").Len()"
					if id.Name == "cap" {
						m = ").Cap()"
					}
					fc.repl(x.Pos(), x.Args[0].Pos(), "(")
					fc.repl(x.Args[0].End(), x.Rparen+1, m)
				}
				if id.Name == "close" && len(x.Args) == 1 {
					fc.repl(x.Pos(), x.Args[0].Pos(), "(")
					fc.repl(x.Args[0].End(), x.Rparen+1, ").Close()")
				}
			}
		case *ast.TypeSpec:
			if _, ok := x.Type.(*ast.ChanType); ok && p.namedChan[x.Name.Name] {
				if p.chanStruct[x.Name.Name] {
					fc.ins(x.Type.Pos(), "struct{ ", 3)
					fc.ins(x.Type.End(), " }", 7)
				} else {
					fc.ins(x.Type.Pos(), "= ", 3)
				}
			}
		case *ast.BinaryExpr:
			// x == nil / x != nil for a channel type rewritten to a struct
			if x.Op == token.EQL || x.Op == token.NEQ {
				if id, ok := x.Y.(*ast.Ident); ok && id.Name == "nil" && id.Obj == nil && p.isStructChanName(x.X) {
					fc.ins(x.X.End(), ".Chan", 7)
				}
				if id, ok := x.X.(*ast.Ident); ok && id.Name == "nil" && id.Obj == nil && p.isStructChanName(x.Y) {
					fc.ins(x.Y.End(), ".Chan", 7)
				}
			}
		case *ast.ChanType:
			if !fc.skip[x] {
				fc.need["vchan"] = true
				fc.repl(x.Pos(), x.Value.Pos(), "*vchan.Chan[")
				fc.ins(x.Value.End(), "]", 4)
			}
		}
		return true
	})
}

func (p *pkgCtx) rewriteSelect(fc *fileCtx, sel *ast.SelectStmt, inComm map[ast.Node]bool) {
	fc.need["vchan"] = true
	var temps, exprs, cases []string
	hasDefault := false
	idx := 0
	for _, cl := range sel.Body.List {
		cc := cl.(*ast.CommClause)
		if cc.Comm == nil {
			hasDefault = true
			fc.repl(cc.Case, cc.Colon+1, "default:")
			continue
		}
		inComm[cc.Comm] = true
		tmp := fmt.Sprintf("vsimSel%d", fc.selTemp)
		fc.selTemp++
		head := fmt.Sprintf("case %d:", idx)
		switch c := cc.Comm.(type) {
		case *ast.SendStmt:
			temps = append(temps, tmp)
			exprs = append(exprs, "("+fc.text(c.Chan)+")"+p.rawChan(c.Chan))
			cases = append(cases, fmt.Sprintf("vchan.SendCase(%s, (%s))", tmp, fc.text(c.Value)))
		case *ast.ExprStmt:
			u, ok := c.X.(*ast.UnaryExpr)
			if !ok || u.Op != token.ARROW {
				unsupported = append(unsupported, fmt.Sprintf("%s:%d: select clause form", fc.rel, fc.fset.Position(c.Pos()).Line))
				return
			}
			temps = append(temps, tmp)
			exprs = append(exprs, "("+fc.text(u.X)+")"+p.rawChan(u.X))
			cases = append(cases, fmt.Sprintf("vchan.RecvCase(%s)", tmp))
		case *ast.AssignStmt:
			u, ok := c.Rhs[0].(*ast.UnaryExpr)
			if !ok || u.Op != token.ARROW || len(c.Rhs) != 1 {
				unsupported = append(unsupported, fmt.Sprintf("%s:%d: select clause form", fc.rel, fc.fset.Position(c.Pos()).Line))
				return
			}
			temps = append(temps, tmp)
			exprs = append(exprs, "("+fc.text(u.X)+")"+p.rawChan(u.X))
			cases = append(cases, fmt.Sprintf("vchan.RecvCase(%s)", tmp))
			var l []string
			for _, e := range c.Lhs {
				l = append(l, fc.text(e))
			}
			if len(l) == 2 {
				head += fmt.Sprintf(" %s %s %s.Selected();", strings.Join(l, ", "), c.Tok, tmp)
			} else {
				head += fmt.Sprintf(" %s %s %s.Selected1();", l[0], c.Tok, tmp)
			}
		}
		fc.repl(cc.Case, cc.Colon+1, head)
		idx++
	}
	header := "switch "
	if len(temps) > 0 {
		header += strings.Join(temps, ", ") + " := " + strings.Join(exprs, ", ") + "; "
	}
	header += fmt.Sprintf("vchan.Select(%v", hasDefault)
	for _, c := range cases {
		header += ", " + c
	}
	header += ") {"
	fc.repl(sel.Select, sel.Body.Lbrace+1, header)
	if !hasDefault {
		// keeps the statement terminating when every clause is (a select without default is)
		fc.ins(sel.Body.Rbrace, "default: panic(\"vsim: select returned without a clause\"); ", 2)
	}
}

// rawChan is ".Chan" for an expression whose declared type is a channel type rewritten to a struct.
func (p *pkgCtx) rawChan(e ast.Expr) string {
	if p.isStructChanName(e) {
		return ".Chan"
	}
	return ""
}

// hookBlock inserts vrace hooks before the statements of a block, recursively.
func (p *pkgCtx) hookBlock(fc *fileCtx, b *ast.BlockStmt) {
	if b == nil {
		return
	}
	p.hookList(fc, b.List)
}

func (p *pkgCtx) hookList(fc *fileCtx, list []ast.Stmt) {
	for _, s := range list {
		a := &accs{p: p, fc: fc, reads: map[string]bool{}, writes: map[string]bool{}}
		a.shallow(s)
		var ids []string
		for id := range a.writes {
			ids = append(ids, id)
		}
		for id := range a.reads {
			if !a.writes[id] {
				ids = append(ids, id)
			}
		}
		sort.Strings(ids)
		txt := ""
		for _, id := range ids {
			fn := "R"
			if a.writes[id] {
				fn = "W"
			}
			if strings.Contains(id, ",") {
				fn += "K" // keyed by the index values: every element is a variable of its own
			}
			txt += fmt.Sprintf("vrace.%s(%s); ", fn, id)
		}
		var ptrs []string
		for e := range a.pw {
			ptrs = append(ptrs, e)
		}
		for e := range a.pr {
			if !a.pw[e] {
				ptrs = append(ptrs, e)
			}
		}
		sort.Strings(ptrs)
		for _, e := range ptrs {
			fn := "RA"
			if a.pw[e] {
				fn = "WA"
			}
			txt += fmt.Sprintf("vrace.%s(vunsafe.Pointer(&%s)); ", fn, e)
			fc.need["vunsafe"] = true
		}
		if txt != "" {
			fc.need["vrace"] = true
			fc.ins(s.Pos(), txt, 0)
		}
		// the condition of a loop is evaluated again on every iteration: hook it at the top of
		// the body too (also keeps a spin on a plain flag from running away with the baton)
		fs, _ := s.(*ast.ForStmt)
		if ls, ok := s.(*ast.LabeledStmt); ok {
			fs, _ = ls.Stmt.(*ast.ForStmt)
		}
		if fs != nil && fs.Cond != nil && fs.Body != nil {
			c := &accs{p: p, fc: fc, reads: map[string]bool{}, writes: map[string]bool{}}
			c.expr(fs.Cond)
			if fs.Post != nil {
				c.shallow(fs.Post)
			}
			var cids []string
			for id := range c.writes {
				cids = append(cids, id)
			}
			for id := range c.reads {
				if !c.writes[id] {
					cids = append(cids, id)
				}
			}
			sort.Strings(cids)
			ctxt := ""
			for _, id := range cids {
				fn := "R"
				if c.writes[id] {
					fn = "W"
				}
				if strings.Contains(id, ",") {
					fn += "K"
				}
				ctxt += fmt.Sprintf("vrace.%s(%s); ", fn, id)
			}
			if ctxt != "" {
				fc.need["vrace"] = true
				fc.ins(fs.Body.Lbrace+1, " "+ctxt, 1)
			}
		}
		p.hookNested(fc, s)
	}
}

// hookNested descends into the blocks and function literals of a statement.
func (p *pkgCtx) hookNested(fc *fileCtx, s ast.Stmt) {
	switch x := s.(type) {
	case *ast.BlockStmt:
		p.hookBlock(fc, x)
	case *ast.IfStmt:
		p.hookBlock(fc, x.Body)
		switch e := x.Else.(type) {
		case *ast.BlockStmt:
			p.hookBlock(fc, e)
		case *ast.IfStmt:
			p.hookNested(fc, e)
		}
	case *ast.ForStmt:
		p.hookBlock(fc, x.Body)
	case *ast.RangeStmt:
		p.hookBlock(fc, x.Body)
	case *ast.SwitchStmt:
		for _, c := range x.Body.List {
			p.hookList(fc, c.(*ast.CaseClause).Body)
		}
	case *ast.TypeSwitchStmt:
		for _, c := range x.Body.List {
			p.hookList(fc, c.(*ast.CaseClause).Body)
		}
	case *ast.SelectStmt:
		for _, c := range x.Body.List {
			p.hookList(fc, c.(*ast.CommClause).Body)
		}
	case *ast.LabeledStmt:
		p.hookNested(fc, x.Stmt)
	}
	// function literals anywhere in the statement's own expressions
	ast.Inspect(s, func(n ast.Node) bool {
		switch x := n.(type) {
		case *ast.FuncLit:
			p.hookBlock(fc, x.Body)
			return false
		case *ast.BlockStmt:
			return n == s // nested blocks were handled above
		}
		return true
	})
}

// hiddenOwner: for a package below an "internal" directory that is not the module's own, the
// directory of the package that may import it.
func hiddenOwner(dir string) (string, bool) {
	parts := strings.Split(filepath.ToSlash(dir), "/")
	for i, e := range parts {
		if e == "internal" && i > 0 {
			return strings.Join(parts[:i], "/"), true
		}
	}
	return "", false
}

func (p *pkgCtx) importsPkg(dir string) bool {
	want := "go.lstv.dev/util/" + filepath.ToSlash(dir)
	for _, fc := range p.files {
		for _, ip := range fc.imports {
			if ip == want {
				return true
			}
		}
	}
	return false
}

func (p *pkgCtx) writeReset(root string, children []*pkgCtx) {
	if len(p.resetFns) == 0 && len(children) == 0 {
		return
	}
	body := "// Code generated by vsim rewrite. DO NOT EDIT.\n\npackage " + p.name + "\n\n"
	childCalls := ""
	for i, q := range children {
		body += fmt.Sprintf("import vsimchild%d %q\n", i, "go.lstv.dev/util/"+filepath.ToSlash(q.dir))
		childCalls += fmt.Sprintf("\tvsimchild%d.VsimReset() // on behalf of the harness, which may not import it\n", i)
	}
	if len(children) > 0 {
		body += "\n"
	}
	reg := ""
	var names []string
	for n := range p.instr {
		names = append(names, n)
	}
	sort.Strings(names)
	if len(names) > 0 {
		body += "import (\n\t\"unsafe\"\n\n\tvrace \"" + base + "vrace\"\n)\n\n"
		for _, n := range names {
			if !strings.Contains(n, "[]") {
				reg += fmt.Sprintf("\tvrace.Register(%d, uintptr(unsafe.Pointer(&%s)))\n", p.instr[n], n)
			}
		}
		if reg == "" {
			reg = "\t_ = unsafe.Pointer(nil)\n\t_ = vrace.Enabled\n"
		}
		reg = "\tdefer func() { recover() }() // a path through a nil pointer has no address yet\n" + reg
	}
	body += "// VsimReset puts the package-level state back to its initial value (three passes cover\n// initialisers that depend on each other), then re-runs the init functions.\nfunc VsimReset() {\n" + childCalls
	var vars, inits []string
	for _, fn := range p.resetFns {
		if strings.HasPrefix(fn, "vsimReset") {
			vars = append(vars, fn)
		} else {
			inits = append(inits, fn)
		}
	}
	sort.Strings(vars)
	sort.Strings(inits)
	body += "\tfor pass := 0; pass < 3; pass++ {\n"
	for _, fn := range vars {
		body += "\t\t" + fn + "(pass)\n"
	}
	body += "\t}\n"
	for _, fn := range inits {
		body += "\t" + fn + "()\n"
	}
	body += reg + "}\n"
	if err := os.WriteFile(filepath.Join(root, p.dir, "vsim_reset_gen.go"), []byte(body), 0o644); err != nil {
		die(err)
	}
}
