// Command rewrite substitutes the sync, math/rand and time imports of the non-test files of
// the given package directories by the simulator's stand-ins (same local names, so every
// selector in the unchanged function bodies now resolves to a simulated primitive), scans
// for synchronisation the simulator does not model, and writes the verdict as a generated
// Go file into the c19 harness package.
//
// usage: rewrite <scratch module root> <out scan_gen.go> <pkgdir>...
package main

import (
	"fmt"
	"go/ast"
	"go/parser"
	"go/printer"
	"go/token"
	"os"
	"path/filepath"
	"sort"
	"strconv"
	"strings"
)

const base = "go.lstv.dev/util/internal/vsim/"

var subst = map[string][2]string{
	"sync":      {base + "vsync", "sync"},
	"math/rand": {base + "vrand", "rand"},
	"time":      {base + "vtime", "time"},
}

// sync selectors the vector-clock model covers; anything else from sync disables I2.
var modelled = map[string]bool{"Mutex": true, "RWMutex": true, "Once": true, "WaitGroup": true, "Cond": true, "NewCond": true, "Locker": true, "OnceFunc": true, "Pool": true, "Map": true}

func main() {
	if len(os.Args) < 4 {
		fmt.Fprintln(os.Stderr, "usage: rewrite <root> <out> <pkgdir>...")
		os.Exit(2)
	}
	root, out := os.Args[1], os.Args[2]
	var unsupported, i2off, notes []string
	files := 0
	usesSync := false
	resetFuncs := map[string][]string{}
	resetBodies := map[string]string{}
	pkgNames := map[string]string{}
	for _, dir := range os.Args[3:] {
		ents, err := os.ReadDir(filepath.Join(root, dir))
		if err != nil {
			continue
		}
		for _, e := range ents {
			name := e.Name()
			if e.IsDir() || !strings.HasSuffix(name, ".go") || strings.HasSuffix(name, "_test.go") {
				continue
			}
			path := filepath.Join(root, dir, name)
			fset := token.NewFileSet()
			f, err := parser.ParseFile(fset, path, nil, parser.ParseComments)
			if err != nil {
				fmt.Fprintf(os.Stderr, "rewrite: %v\n", err)
				os.Exit(2)
			}
			rel := filepath.Join(dir, name)
			changed := false
			syncName := ""
			for _, imp := range f.Imports {
				p, _ := strconv.Unquote(imp.Path.Value)
				if p == "sync/atomic" {
					i2off = append(i2off, rel+": imports sync/atomic")
				}
				if p == "math/rand/v2" {
					notes = append(notes, rel+": imports math/rand/v2 (not simulated; real generator runs)")
					i2off = append(i2off, rel+": imports math/rand/v2")
				}
				if p == "unsafe" {
					notes = append(notes, rel+": imports unsafe")
				}
				if s, ok := subst[p]; ok {
					local := s[1]
					if imp.Name != nil {
						local = imp.Name.Name
					}
					if local == "_" {
						continue
					}
					if local == "." {
						unsupported = append(unsupported, rel+": dot-import of "+p)
						continue
					}
					imp.Path.Value = strconv.Quote(s[0])
					imp.Name = ast.NewIdent(local)
					changed = true
					if p == "sync" {
						syncName = local
						usesSync = true
					}
				}
			}
			ast.Inspect(f, func(n ast.Node) bool {
				switch x := n.(type) {
				case *ast.GoStmt:
					unsupported = append(unsupported, fmt.Sprintf("%s:%d: go statement", rel, fset.Position(x.Pos()).Line))
				case *ast.SelectStmt:
					unsupported = append(unsupported, fmt.Sprintf("%s:%d: select statement", rel, fset.Position(x.Pos()).Line))
				case *ast.SendStmt:
					unsupported = append(unsupported, fmt.Sprintf("%s:%d: channel send", rel, fset.Position(x.Pos()).Line))
				case *ast.UnaryExpr:
					if x.Op == token.ARROW {
						unsupported = append(unsupported, fmt.Sprintf("%s:%d: channel receive", rel, fset.Position(x.Pos()).Line))
					}
				case *ast.ChanType:
					unsupported = append(unsupported, fmt.Sprintf("%s:%d: channel type", rel, fset.Position(x.Pos()).Line))
				case *ast.SelectorExpr:
					if id, ok := x.X.(*ast.Ident); ok && syncName != "" && id.Name == syncName && id.Obj == nil {
						if !modelled[x.Sel.Name] {
							i2off = append(i2off, fmt.Sprintf("%s:%d: uses sync.%s (no happens-before model)", rel, fset.Position(x.Pos()).Line, x.Sel.Name))
						}
					}
				}
				return true
			})
			// package-level state must not leak from one simulated run into the next: every
			// file gets a function that re-executes its package-level var initialisers
			var resets []string
			for _, d := range f.Decls {
				gd, ok := d.(*ast.GenDecl)
				if !ok || gd.Tok != token.VAR {
					continue
				}
				for _, sp := range gd.Specs {
					vs := sp.(*ast.ValueSpec)
					var names []string
					allBlank := true
					for _, n := range vs.Names {
						names = append(names, n.Name)
						if n.Name != "_" {
							allBlank = false
						}
					}
					if allBlank {
						continue
					}
					if len(vs.Values) > 0 {
						var vals []string
						for _, v := range vs.Values {
							var sb strings.Builder
							printer.Fprint(&sb, fset, v)
							vals = append(vals, sb.String())
						}
						resets = append(resets, strings.Join(names, ", ")+" = "+strings.Join(vals, ", "))
					} else if vs.Type != nil {
						var sb strings.Builder
						printer.Fprint(&sb, fset, vs.Type)
						for _, n := range names {
							if n != "_" {
								resets = append(resets, fmt.Sprintf("{ var z %s; %s = z }", sb.String(), n))
							}
						}
					}
				}
			}
			if len(resets) > 0 {
				fn := fmt.Sprintf("vsimReset%d", len(resetFuncs[dir]))
				resetFuncs[dir] = append(resetFuncs[dir], fn)
				resetBodies[path] = "\n// " + fn + " re-executes the package-level var initialisers of this file (generated by vsim rewrite).\nfunc " + fn + "() {\n\t" + strings.Join(resets, "\n\t") + "\n}\n"
				pkgNames[dir] = f.Name.Name
				changed = true
			}
			if changed {
				w, err := os.Create(path)
				if err != nil {
					fmt.Fprintf(os.Stderr, "rewrite: %v\n", err)
					os.Exit(2)
				}
				if err := printer.Fprint(w, fset, f); err != nil {
					fmt.Fprintf(os.Stderr, "rewrite: %v\n", err)
					os.Exit(2)
				}
				if body, ok := resetBodies[path]; ok {
					fmt.Fprint(w, body)
				}
				w.Close()
				files++
			}
		}
	}
	sort.Strings(unsupported)
	sort.Strings(i2off)
	note := fmt.Sprintf("rewrote imports in %d file(s) of %s; I2 happens-before %s", files, strings.Join(os.Args[3:], ","), map[bool]string{true: "enabled", false: "disabled: " + strings.Join(i2off, "; ")}[len(i2off) == 0])
	if len(notes) > 0 {
		note += "; " + strings.Join(notes, "; ")
	}
	var dirs []string
	for d := range resetFuncs {
		dirs = append(dirs, d)
	}
	sort.Strings(dirs)
	imports, calls := "", ""
	for i, d := range dirs {
		body := "// Code generated by vsim rewrite. DO NOT EDIT.\n\npackage " + pkgNames[d] + "\n\n// VsimReset puts the package-level state back to its initial value (three passes cover\n// initialisers that depend on each other).\nfunc VsimReset() {\n\tfor pass := 0; pass < 3; pass++ {\n"
		for _, fn := range resetFuncs[d] {
			body += "\t\t" + fn + "()\n"
		}
		body += "\t}\n}\n"
		if err := os.WriteFile(filepath.Join(root, d, "vsim_reset_gen.go"), []byte(body), 0o644); err != nil {
			fmt.Fprintf(os.Stderr, "rewrite: %v\n", err)
			os.Exit(2)
		}
		imports += fmt.Sprintf("\tpkg%d %q\n", i, "go.lstv.dev/util/"+filepath.ToSlash(d))
		calls += fmt.Sprintf("\tpkg%d.VsimReset()\n", i)
	}
	src := fmt.Sprintf("// Code generated by vsim rewrite. DO NOT EDIT.\n\npackage c19\n\nimport (\n%s)\n\n// resetPackages re-initialises the package-level state of the substituted packages.\nfunc resetPackages() {\n%s}\n\n// Verdict of the static scan of the import-substituted packages.\nvar (\n\tScanI2          = %v\n\tScanUsesSync    = %v\n\tScanUnsupported = %q\n\tScanNote        = %q\n)\n",
		imports, calls, len(i2off) == 0, usesSync, strings.Join(unsupported, "; "), note)
	if err := os.WriteFile(out, []byte(src), 0o644); err != nil {
		fmt.Fprintf(os.Stderr, "rewrite: %v\n", err)
		os.Exit(2)
	}
	fmt.Println(note)
}
