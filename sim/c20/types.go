// Package c20 drives the six marshal-test helpers of package test with scripted
// collaborators (types under test, hooks, predicates, TypeHelper, TestingT) whose faults
// come from an enumeration and from the tape, and judges every list against an oracle
// written from the property statement.
package c20

import (
	"encoding/json"
	"errors"
	"fmt"
	"strconv"
	"strings"
)

// encodings
const (
	kText = iota
	kBinary
	kJSON
)

// directions
const (
	dirMarshal = iota
	dirUnmarshal
)

// behaviours of the type under test
const (
	bRight = iota
	bWrong
	bError         // error, nothing else
	bErrorWithData // error together with a non-empty result
	bPanicString
	bPanicError
	bPanicAfterSet  // unmarshal: sets the value, then panics; marshal: same as bPanicString
	bNothing        // no error and an empty result: (nil, nil) / value left untouched
	bNilReceiver    // marshal on a nil *P
	bErrorEmptied   // unmarshal: error, and the receiver reset to an empty but non-nil value (slice and map kinds)
	bEmptied        // unmarshal: no error, receiver set to an empty but non-nil value (slice and map kinds)
	bPanicBadError  // panics with an error value whose own Error method cannot be called (a typed nil pointer)
	bReturnBadError // returns (no result and) an error value whose own Error method cannot be called (a typed nil pointer in the error interface)
	numBehaviours
)

var behNames = [...]string{"right", "wrong", "error", "error+data", "panic(string)", "panic(error)", "panic-after-set", "nothing", "nil-receiver", "error+emptied", "emptied", "panic(error whose Error() panics)", "error whose Error() panics"}

// hook behaviours
const (
	hAbsent = iota
	hPass
	hError
	hPanic
	hPanicBadError // panics with a typed nil pointer error (its Error method dereferences the receiver)
	numHooks
)

// nHook is the number of hook behaviours the main enumeration crosses; the later ones have
// blocks of their own.
const nHook = 4

var hookNames = [...]string{"absent", "pass", "error", "panic", "panic(error whose Error() panics)"}

// badErr is an error type whose Error method needs a non-nil receiver; panic((*badErr)(nil))
// is what a failing constructor that returns a typed nil leaves behind.
type badErr struct{ msg string }

func (e *badErr) Error() string { return e.msg }

// predicate kinds
const (
	pNone = iota
	pAny
	pExactMet
	pExactUnmet
	pExactNear // a proper prefix of the text: must not be accepted as equal
	pPrefixMet
	pPrefixUnmet
	pPrefixNear // an inner substring: must not be accepted as prefix
	pSuffixMet
	pSuffixUnmet
	pSuffixNear // an inner substring: must not be accepted as suffix
	pMatchMet
	pMatchUnmet
	pMatchNear // matches only part of the text under full anchoring
	pMatchInvalid
	pExactLonger     // the text plus one byte
	pExactEmpty      // Error("")
	pPrefixLonger    // the text plus one byte: longer than what it should prefix
	pPrefixEmpty     // ErrorHasPrefix(""): met by every error
	pSuffixLonger    // one byte plus the text
	pSuffixEmpty     // ErrorHasSuffix(""): met by every error
	pCustomAccept    // caller-written predicate: returns err != nil, never reports anything itself
	pCustomReject    // caller-written predicate: always returns false, never reports anything itself
	pCustomAcceptNil // caller-written predicate that also accepts "no error": always returns true
	pMatchDotAll     // "^<beginning>.+$": met by a one-line text, unmet by a recovered panic (its text has newlines, '.' does not cross them)
	pCustomFailNow   // caller-written predicate that signals its verdict through t.FailNow() alone and returns false
	pMatchEmpty      // ErrorMatch(".*"): met by every error whose text can be read, the empty text included
	numPreds
)

var predNames = [...]string{"none", "AnyError", "Error(met)", "Error(unmet)", "Error(near-miss)", "HasPrefix(met)", "HasPrefix(unmet)", "HasPrefix(near-miss)", "HasSuffix(met)", "HasSuffix(unmet)", "HasSuffix(near-miss)", "Match(met)", "Match(unmet)", "Match(near-miss)", "Match(invalid)", "Error(text+1)", "Error(empty)", "HasPrefix(text+1)", "HasPrefix(empty)", "HasSuffix(1+text)", "HasSuffix(empty)", "custom(silent, accepts any error)", "custom(silent, rejects)", "custom(silent, accepts nil too)", "Match(.+$ must not cross newlines)", "custom(rejects through FailNow only)", "Match(.* matches the empty text too)"}

// caseSpec scripts one case: what its collaborators will do.
type caseSpec struct {
	constraint      int // 0, 1 OnlyMarshal, 2 OnlyUnmarshal
	beh             int
	before          int
	after           int
	pred            int
	payload         string
	nilValue        bool // unmarshal direction, pointer-typed T: the case lists a nil pointer as its value
	nilIface        bool // interface-typed T: the case lists a nil interface value (not the first case)
	adjust          bool // the case is listed with a wrong expectation and its (passing) Before hook puts it right
	wrongKind       int  // how a "wrong" result differs from the right one
	wildcard        bool // unmarshal, asymmetric TypeHelper: the listed value leaves the payload open
	nilExpect       bool // unmarshal, slice and map kinds: the case lists a nil value (an empty non-nil result differs from it)
	other           bool // interface-typed T: the value of this case is a *Q instead of a *P
	emptyData       bool // marshal direction: the case expects no data at all ("" / nil); only a marshaler that returns (nil, nil) matches
	adjustAfter     bool // the case is listed with a wrong expectation (expected data for marshal, expected value for unmarshal) and its (passing) After hook puts it right before the assertions
	beforeSetsAfter bool // the case is listed without an After hook; its (passing) Before hook installs the After hook the script calls for
	adjustPred      bool // with adjust: the case is also listed with the wrong kind of expectation (a predicate where none belongs, or none where one belongs) and its Before hook installs the right one
	predDrawn       int  // the predicate as drawn, before normalise took it away from a nil-interface case
	nilData         bool // binary unmarshal helper: the case lists nil input data; the decoder must be handed nil, not an empty non-nil slice
}

// ways a wrong result differs
const (
	wTilde          = iota // right + "~"
	wNewline               // right + "\n"
	wShort                 // right without its last byte
	wSpace                 // " " + right
	wUpper                 // right with ASCII letters upper-cased
	wJSONEquivalent        // JSON marshal helper only: the same JSON value, other key order, spacing and number form
	wInvalidByte           // another invalid UTF-8 byte in the place of one (0xff -> 0xfe, 0xe9 -> 0xe8): equal as runes, different as bytes
	wDynType               // a value behind an interface-typed field has another dynamic type (float64(1) for int(1)); for types without such a field: another payload
	numWrong
)

var wrongNames = [...]string{"+~", "+newline", "-last byte", "space+", "upper-cased", "json-equivalent", "other-invalid-utf8-byte", "other-dynamic-type-behind-interface"}

func wrongOf(s string, kind int) string {
	switch kind {
	case wNewline:
		return s + "\n"
	case wShort:
		if len(s) > 1 {
			return s[:len(s)-1]
		}
		return s + "~"
	case wSpace:
		return " " + s
	case wUpper:
		u := strings.ToUpper(s)
		if u != s {
			return u
		}
		return s + "~"
	case wDynType:
		return s + dynMark
	case wInvalidByte:
		b := []byte(s)
		changed := false
		for i, c := range b {
			if c == 0xff || c == 0xe9 {
				b[i] = c - 1
				changed = true
			}
		}
		if changed {
			return string(b)
		}
		return s + "~"
	}
	return s + "~"
}

func (c caseSpec) sig() string {
	nv := ""
	if c.nilValue {
		nv = ",value=nil"
	}
	if c.nilIface {
		nv = ",value=nil-interface"
	}
	if c.adjust {
		nv += ",before-hook-adjusts-expectation"
	}
	if c.beh == bWrong && c.wrongKind != 0 {
		nv += ",wrong=" + wrongNames[c.wrongKind]
	}
	if c.wildcard {
		nv += ",wildcard-payload"
	}
	if c.nilExpect {
		nv += ",listed-value=nil"
	}
	if c.other {
		nv += ",concrete-type=*Q"
	}
	if c.emptyData {
		nv += ",listed-data=empty"
	}
	if c.nilData {
		nv += ",listed-input=nil"
	}
	if c.adjustPred {
		nv += ",before-hook-installs-or-clears-the-predicate"
	}
	if c.adjustAfter {
		nv += ",after-hook-adjusts-expectation"
	}
	if c.beforeSetsAfter {
		nv += ",before-hook-installs-the-after-hook"
	}
	return fmt.Sprintf("constraint=%d,beh=%s,before=%s,after=%s,pred=%s%s", c.constraint, behNames[c.beh], hookNames[c.before], hookNames[c.after], predNames[c.pred], nv)
}

// errHead is the beginning of the error text the helper will see for this case, "" if the
// call does not fail. For a panic the text continues with a stack trace.
func (c caseSpec) errHead(i int) string {
	switch c.beh {
	case bError, bErrorWithData, bErrorEmptied:
		return fmt.Sprintf("scripted failure %d (100%%)", i)
	case bPanicString, bPanicAfterSet:
		return fmt.Sprintf("panic: boom %d%% %%s /a%%2Fb\n", i)
	case bPanicError:
		return fmt.Sprintf("panic: boom-err %d%% %%d\n", i)
	case bPanicBadError:
		// fmt prints a nil receiver whose Error method panics as <nil>
		return "panic: <nil>\n"
	case bNilReceiver:
		// the text after "panic: " differs between a nil *P (runtime error: invalid memory
		// address ...) and a nil *V (value method ... called using nil *V pointer)
		return "panic: "
	}
	return ""
}

func (c caseSpec) isPanic() bool {
	return c.beh == bPanicString || c.beh == bPanicError || c.beh == bPanicAfterSet || c.beh == bNilReceiver || c.beh == bPanicBadError
}

// data is what the case lists as expected data / input data: "<index>|<payload>".
func (c caseSpec) data(i int) string { return strconv.Itoa(i) + "|" + c.payload }

// marshalData is what a marshal helper is told to expect and what a right marshaler returns.
// For the JSON marshal helper it is a JSON document, so that "the same JSON value written
// differently" exists as a way of being wrong; an "empty" case expects no data at all.
func (c caseSpec) marshalData(i int, jsonDoc bool) string {
	if c.emptyData {
		return ""
	}
	if jsonDoc {
		b, _ := json.Marshal(c.payload)
		return fmt.Sprintf(`{"c":%d,"p":%s}`, i, b)
	}
	return c.data(i)
}

// wrongMarshalData is marshalData gone wrong in the case's way.
func (c caseSpec) wrongMarshalData(i int, jsonDoc bool) string {
	if c.emptyData {
		return "unexpected"
	}
	if jsonDoc && c.wrongKind == wJSONEquivalent {
		b, _ := json.Marshal(c.payload)
		// the same JSON value, written differently in one of four ways (no tape choice: by
		// case index and payload length)
		switch (i + len(c.payload)) % 4 {
		case 1: // key order alone
			return fmt.Sprintf(`{"p":%s,"c":%d}`, b, i)
		case 2: // an escape spelled differently: the first character of the string as \u00XX
			if len(b) > 2 && b[1] != '\\' && b[1] < 0x80 {
				return fmt.Sprintf(`{"c":%d,"p":"\u%04x%s}`, i, b[1], b[2:])
			}
			return fmt.Sprintf(`{"p":%s,"c":%d}`, b, i)
		case 3: // a key twice, with the same value
			return fmt.Sprintf(`{"c":%d,"c":%d,"p":%s}`, i, i, b)
		}
		return fmt.Sprintf("{ \"p\": %s,\n  \"c\": %d.0 }", b, i)
	}
	return wrongOf(c.marshalData(i, jsonDoc), c.wrongKind)
}

// ---------------------------------------------------------------------------------------
// the list in progress (the harness is single-threaded per process; with the Goexit
// environment the helper runs on its own goroutine and is awaited before anything else)

type event struct {
	what string // before, after, marshal, unmarshal, errorf, failnow, unscripted
	idx  int    // case index for collaborator invocations, attributed case for failures
}

type listRun struct {
	cloneCfg bool // *V with the prototype-cloning TypeHelper: the decoder must be handed a target that carries the configuration
	specs    []caseSpec
	enc      int
	events   []event
	jsonDoc  bool     // JSON marshal helper: expected data are JSON documents
	badIndex []string // hooks that were handed an index other than their case's position
	lastSeen int      // index of the most recent collaborator invocation, -1 before any
	failures []int
	listFail int // failures recorded before any collaborator ran (interface check)
	goexit   bool
	exited   bool // FailNow ended the helper's goroutine
	exitedAt int  // ... while this case was being processed: later cases were never reached
	failNows int
	msgs     []string
	keepMsgs bool
}

var cur *listRun

func (l *listRun) hookIndex(phase string, pos, got int) {
	if pos != got {
		l.badIndex = append(l.badIndex, fmt.Sprintf("%s hook of case %d received index %d", phase, pos, got))
	}
}

func (l *listRun) seen(what string, idx int) {
	l.events = append(l.events, event{what, idx})
	l.lastSeen = idx
}

// recorder is the TestingT handed to the helpers.
type recorder struct{ l *listRun }

func (r *recorder) Helper() {}

func (r *recorder) Errorf(format string, args ...interface{}) {
	l := r.l
	l.events = append(l.events, event{"errorf", l.lastSeen})
	if l.lastSeen < 0 {
		l.listFail++
	} else {
		l.failures[l.lastSeen]++
	}
	if l.keepMsgs {
		m := fmt.Sprintf(format, args...)
		if i := strings.Index(m, "Error:"); i >= 0 {
			m = m[i:]
		}
		if len(m) > 160 {
			m = m[:160] + "..."
		}
		l.msgs = append(l.msgs, strings.Join(strings.Fields(m), " "))
	}
}

func (r *recorder) FailNow() {
	l := r.l
	l.failNows++
	l.events = append(l.events, event{"failnow", l.lastSeen})
	if l.lastSeen < 0 {
		l.listFail++
	} else {
		l.failures[l.lastSeen]++
	}
	if l.goexit {
		if !l.exited {
			l.exited, l.exitedAt = true, l.lastSeen
		}
		goexit()
	}
}

// ---------------------------------------------------------------------------------------
// scripted types under test

// V has value-receiver marshalers and pointer-receiver unmarshalers.
type V struct {
	Case    int // case index + 1
	Payload string
	Mode    string // configuration a prototype-cloning TypeHelper carries over from the listed value
}

// P has pointer receivers throughout (T is *P).
type P struct {
	Case    int
	Payload string
}

// Q is a second pointer-receiver type: an interface-typed T may hold a *P in one case and a
// *Q in the next.
type Q struct {
	Case    int
	Payload string
	IsQ     bool
}

func (p *Q) MarshalText() ([]byte, error)   { return doMarshal(p.Case) }
func (p *Q) MarshalBinary() ([]byte, error) { return doMarshal(p.Case) }
func (p *Q) MarshalJSON() ([]byte, error)   { return doMarshal(p.Case) }
func (p *Q) UnmarshalText(b []byte) error {
	return doUnmarshal(b, func(c int, s string) { *p = Q{c, s, true} })
}
func (p *Q) UnmarshalBinary(b []byte) error {
	return doUnmarshal(b, func(c int, s string) { *p = Q{c, s, true} })
}
func (p *Q) UnmarshalJSON(b []byte) error {
	return doUnmarshal(b, func(c int, s string) { *p = Q{c, s, true} })
}

// dynMark at the end of a payload tells Doc's decoder to store the right payload but a float64
// where the listed value has an int.
const dynMark = "#dyn"

// Doc is a value type with an interface-typed field holding a map (what a JSON document decodes
// to): comparable as far as the type system knows, while == on two of them panics at run time.
type Doc struct {
	Case    int
	Payload string
	Body    interface{}
}

func docBody(c int, asFloat bool) interface{} {
	if asFloat {
		return map[string]interface{}{"n": float64(c), "tags": []interface{}{"a"}}
	}
	return map[string]interface{}{"n": c, "tags": []interface{}{"a"}}
}

func (v Doc) MarshalText() ([]byte, error)   { return doMarshal(v.Case) }
func (v Doc) MarshalBinary() ([]byte, error) { return doMarshal(v.Case) }
func (v Doc) MarshalJSON() ([]byte, error)   { return doMarshal(v.Case) }
func (v *Doc) set(c int, p string) {
	dyn := strings.HasSuffix(p, dynMark)
	v.Case, v.Payload, v.Body = c, strings.TrimSuffix(p, dynMark), docBody(c, dyn)
}
func (v *Doc) UnmarshalText(b []byte) error   { return doUnmarshal(b, v.set) }
func (v *Doc) UnmarshalBinary(b []byte) error { return doUnmarshal(b, v.set) }
func (v *Doc) UnmarshalJSON(b []byte) error   { return doUnmarshal(b, v.set) }

// L is a pointer-receiver type whose String method memoises its result in the value: formatting
// an L changes it, so a helper that formats a value it has not been asked to report on hands
// the comparison something the decoder did not produce.
type L struct {
	Case     int
	Payload  string
	rendered string
}

func (l *L) String() string {
	if l.rendered == "" {
		l.rendered = "<" + l.Payload + ">"
	}
	return l.rendered
}
func (l *L) MarshalText() ([]byte, error)   { return doMarshal(l.Case) }
func (l *L) MarshalBinary() ([]byte, error) { return doMarshal(l.Case) }
func (l *L) MarshalJSON() ([]byte, error)   { return doMarshal(l.Case) }
func (l *L) UnmarshalText(b []byte) error {
	return doUnmarshal(b, func(c int, s string) { *l = L{Case: c, Payload: s} })
}
func (l *L) UnmarshalBinary(b []byte) error {
	return doUnmarshal(b, func(c int, s string) { *l = L{Case: c, Payload: s} })
}
func (l *L) UnmarshalJSON(b []byte) error {
	return doUnmarshal(b, func(c int, s string) { *l = L{Case: c, Payload: s} })
}

// TextOnly, BinOnly and JSONOnly implement one encoding each (both directions): a helper of
// another encoding must report them as lacking its interface, the matching one must not.
type (
	TextOnly struct {
		Case    int
		Payload string
	}
	BinOnly struct {
		Case    int
		Payload string
	}
	JSONOnly struct {
		Case    int
		Payload string
	}
)

func (v TextOnly) MarshalText() ([]byte, error) { return doMarshal(v.Case) }
func (v *TextOnly) UnmarshalText(b []byte) error {
	return doUnmarshal(b, func(c int, p string) { v.Case, v.Payload = c, p })
}
func (v BinOnly) MarshalBinary() ([]byte, error) { return doMarshal(v.Case) }
func (v *BinOnly) UnmarshalBinary(b []byte) error {
	return doUnmarshal(b, func(c int, p string) { v.Case, v.Payload = c, p })
}
func (v JSONOnly) MarshalJSON() ([]byte, error) { return doMarshal(v.Case) }
func (v *JSONOnly) UnmarshalJSON(b []byte) error {
	return doUnmarshal(b, func(c int, p string) { v.Case, v.Payload = c, p })
}

// OnlyM implements only the marshal side, OnlyU only the unmarshal side, None neither.
type (
	OnlyM struct {
		Case    int
		Payload string
	}
	OnlyU struct {
		Case    int
		Payload string
	}
	None struct {
		Case    int
		Payload string
	}
)

var errUnscripted = errors.New("vsim: collaborator called outside the script")

// doMarshal is the body of every scripted Marshal* method.
func doMarshal(caseNo int) ([]byte, error) {
	l := cur
	i := caseNo - 1
	if l == nil || i < 0 || i >= len(l.specs) {
		if l != nil {
			l.events = append(l.events, event{"unscripted", i})
		}
		return nil, errUnscripted
	}
	l.seen("marshal", i)
	s := l.specs[i]
	switch s.beh {
	case bRight:
		if s.emptyData {
			return []byte("unexpected"), nil // there is no "right" data for a case that expects none
		}
		return []byte(s.marshalData(i, l.jsonDoc)), nil
	case bWrong:
		return []byte(s.wrongMarshalData(i, l.jsonDoc)), nil
	case bError:
		return nil, errors.New(s.errHead(i))
	case bErrorWithData:
		return []byte("leftover"), errors.New(s.errHead(i))
	case bPanicString, bPanicAfterSet:
		panic(fmt.Sprintf("boom %d%% %%s /a%%2Fb", i))
	case bPanicError:
		panic(fmt.Errorf("boom-err %d%% %%d", i))
	case bPanicBadError:
		panic((*badErr)(nil))
	case bReturnBadError:
		return nil, (*badErr)(nil)
	case bNothing:
		return nil, nil
	}
	return nil, errUnscripted
}

// doUnmarshal is the body of every scripted Unmarshal* method; set stores (case, payload)
// into the receiver.
// emptied, when non-nil, resets the receiver of the call in progress to an empty non-nil value
// (set by the slice- and map-kinded types around doUnmarshal).
var emptied func()

func doUnmarshal(data []byte, set func(caseNo int, payload string)) error {
	l := cur
	i := -1
	if k := strings.IndexByte(string(data), '|'); k > 0 {
		if v, err := strconv.Atoi(string(data[:k])); err == nil {
			i = v
		}
	}
	if l != nil && len(data) == 0 && l.lastSeen >= 0 && l.lastSeen < len(l.specs) && l.specs[l.lastSeen].nilData {
		// a case that lists nil input: its passing Before hook has just announced it, and
		// the decoder must see exactly what the case lists — nil, not an empty non-nil slice
		i = l.lastSeen
		if data != nil {
			l.events = append(l.events, event{"unscripted", i})
			return errUnscripted
		}
	} else if l == nil || i < 0 || i >= len(l.specs) || string(data) != l.specs[i].data(i) || l.specs[i].nilData {
		if l != nil {
			l.events = append(l.events, event{"unscripted", i})
		}
		return errUnscripted
	}
	l.seen("unmarshal", i)
	s := l.specs[i]
	switch s.beh {
	case bRight:
		set(i+1, s.payload)
		return nil
	case bWrong:
		set(i+1, wrongOf(s.payload, s.wrongKind))
		return nil
	case bError:
		return errors.New(s.errHead(i))
	case bErrorWithData:
		set(i+1, "partial")
		return errors.New(s.errHead(i))
	case bPanicString:
		panic(fmt.Sprintf("boom %d%% %%s /a%%2Fb", i))
	case bPanicError:
		panic(fmt.Errorf("boom-err %d%% %%d", i))
	case bPanicAfterSet:
		set(i+1, s.payload)
		panic(fmt.Sprintf("boom %d%% %%s /a%%2Fb", i))
	case bPanicBadError:
		panic((*badErr)(nil))
	case bReturnBadError:
		return (*badErr)(nil)
	case bNothing:
		return nil
	case bErrorEmptied:
		if emptied != nil {
			emptied()
		}
		return errors.New(s.errHead(i))
	case bEmptied:
		if emptied != nil {
			emptied()
		}
		return nil
	}
	return errUnscripted
}

func (v V) MarshalText() ([]byte, error)   { return doMarshal(v.Case) }
func (v V) MarshalBinary() ([]byte, error) { return doMarshal(v.Case) }
func (v V) MarshalJSON() ([]byte, error)   { return doMarshal(v.Case) }

// unconfigured: with the prototype-cloning TypeHelper every target the helper hands to the
// decoder comes from New(prototype) and carries the prototype's Mode; a bare new(V) does not.
func unconfigured(v *V, data []byte) bool {
	l := cur
	if l == nil || !l.cloneCfg || v == nil || v.Mode != "" {
		return false
	}
	k := strings.IndexByte(string(data), '|')
	if k <= 0 {
		return false
	}
	i, err := strconv.Atoi(string(data[:k]))
	if err != nil || i < 0 || i >= len(l.specs) || l.specs[i].nilExpect || l.specs[i].nilValue || l.specs[i].beh == bNilReceiver {
		return false // the case lists no prototype
	}
	l.events = append(l.events, event{"unscripted", i})
	return true
}

func (v *V) UnmarshalText(b []byte) error {
	if unconfigured(v, b) {
		return errUnscripted
	}
	return doUnmarshal(b, func(c int, p string) { v.Case, v.Payload = c, p })
}
func (v *V) UnmarshalBinary(b []byte) error {
	if unconfigured(v, b) {
		return errUnscripted
	}
	return doUnmarshal(b, func(c int, p string) { v.Case, v.Payload = c, p })
}
func (v *V) UnmarshalJSON(b []byte) error {
	if unconfigured(v, b) {
		return errUnscripted
	}
	return doUnmarshal(b, func(c int, p string) { v.Case, v.Payload = c, p })
}

func (p *P) MarshalText() ([]byte, error)   { return doMarshal(p.Case) }
func (p *P) MarshalBinary() ([]byte, error) { return doMarshal(p.Case) }
func (p *P) MarshalJSON() ([]byte, error)   { return doMarshal(p.Case) }
func (p *P) UnmarshalText(b []byte) error {
	return doUnmarshal(b, func(c int, s string) { *p = P{c, s} })
}
func (p *P) UnmarshalBinary(b []byte) error {
	return doUnmarshal(b, func(c int, s string) { *p = P{c, s} })
}
func (p *P) UnmarshalJSON(b []byte) error {
	return doUnmarshal(b, func(c int, s string) { *p = P{c, s} })
}

func (v OnlyM) MarshalText() ([]byte, error)   { return doMarshal(v.Case) }
func (v OnlyM) MarshalBinary() ([]byte, error) { return doMarshal(v.Case) }
func (v OnlyM) MarshalJSON() ([]byte, error)   { return doMarshal(v.Case) }

func (v *OnlyU) UnmarshalText(b []byte) error {
	return doUnmarshal(b, func(c int, p string) { *v = OnlyU{c, p} })
}
func (v *OnlyU) UnmarshalBinary(b []byte) error {
	return doUnmarshal(b, func(c int, p string) { *v = OnlyU{c, p} })
}
func (v *OnlyU) UnmarshalJSON(b []byte) error {
	return doUnmarshal(b, func(c int, p string) { *v = OnlyU{c, p} })
}

// Str and Bytes are scripted types of string and slice kind: emptiness and equality of
// such values go through other branches of reflect and testify than structs do. The case
// number travels inside the value ("<case+1>|<payload>").

// Str is a string-kinded type under test.
type Str string

// Bytes is a slice-kinded type under test.
type Bytes []byte

func kindValue(caseNo int, payload string) string { return strconv.Itoa(caseNo) + "|" + payload }

func kindCase(v string) int {
	if k := strings.IndexByte(v, '|'); k > 0 {
		if n, err := strconv.Atoi(v[:k]); err == nil {
			return n
		}
	}
	return 0
}

// Equal is lenient on purpose (case-insensitive): a helper must not take it for equality.
func (s Str) Equal(o Str) bool { return strings.EqualFold(string(s), string(o)) }

func (s Str) MarshalText() ([]byte, error)   { return doMarshal(kindCase(string(s))) }
func (s Str) MarshalBinary() ([]byte, error) { return doMarshal(kindCase(string(s))) }
func (s Str) MarshalJSON() ([]byte, error)   { return doMarshal(kindCase(string(s))) }
func (s *Str) UnmarshalText(b []byte) error {
	return doUnmarshal(b, func(c int, p string) { *s = Str(kindValue(c, p)) })
}
func (s *Str) UnmarshalBinary(b []byte) error {
	return doUnmarshal(b, func(c int, p string) { *s = Str(kindValue(c, p)) })
}
func (s *Str) UnmarshalJSON(b []byte) error {
	return doUnmarshal(b, func(c int, p string) { *s = Str(kindValue(c, p)) })
}

func (s Bytes) MarshalText() ([]byte, error)   { return doMarshal(kindCase(string(s))) }
func (s Bytes) MarshalBinary() ([]byte, error) { return doMarshal(kindCase(string(s))) }
func (s Bytes) MarshalJSON() ([]byte, error)   { return doMarshal(kindCase(string(s))) }
func (s *Bytes) UnmarshalText(b []byte) error {
	emptied = func() { *s = Bytes{} }
	defer func() { emptied = nil }()
	return doUnmarshal(b, func(c int, p string) { *s = Bytes(kindValue(c, p)) })
}
func (s *Bytes) UnmarshalBinary(b []byte) error {
	emptied = func() { *s = Bytes{} }
	defer func() { emptied = nil }()
	return doUnmarshal(b, func(c int, p string) { *s = Bytes(kindValue(c, p)) })
}
func (s *Bytes) UnmarshalJSON(b []byte) error {
	emptied = func() { *s = Bytes{} }
	defer func() { emptied = nil }()
	return doUnmarshal(b, func(c int, p string) { *s = Bytes(kindValue(c, p)) })
}

// Map and Num are scripted types of map and integer kind.

// Map is a map-kinded type under test: {"c": "<case+1>|<payload>"}. Its decoder adds to the
// map it is given (a helper that hands two cases the same map is found out).
type Map map[string]string

// Num is an integer-kinded type under test: the case number itself (a wrong result is
// 1000 + case); its zero value is 0.
type Num int

func (m Map) MarshalText() ([]byte, error)   { return doMarshal(kindCase(m["c"])) }
func (m Map) MarshalBinary() ([]byte, error) { return doMarshal(kindCase(m["c"])) }
func (m Map) MarshalJSON() ([]byte, error)   { return doMarshal(kindCase(m["c"])) }
func (m *Map) set(c int, p string) {
	if *m == nil {
		*m = Map{}
	}
	if old, ok := (*m)["c"]; ok {
		(*m)["leaked-from-an-earlier-case"] = old
	}
	(*m)["c"] = kindValue(c, p)
}
func (m *Map) UnmarshalText(b []byte) error {
	emptied = func() { *m = Map{} }
	defer func() { emptied = nil }()
	return doUnmarshal(b, m.set)
}
func (m *Map) UnmarshalBinary(b []byte) error {
	emptied = func() { *m = Map{} }
	defer func() { emptied = nil }()
	return doUnmarshal(b, m.set)
}
func (m *Map) UnmarshalJSON(b []byte) error {
	emptied = func() { *m = Map{} }
	defer func() { emptied = nil }()
	return doUnmarshal(b, m.set)
}

func numCase(n Num) int {
	if n >= 1000 {
		return int(n) - 1000
	}
	return int(n)
}

func (n Num) MarshalText() ([]byte, error)   { return doMarshal(numCase(n)) }
func (n Num) MarshalBinary() ([]byte, error) { return doMarshal(numCase(n)) }
func (n Num) MarshalJSON() ([]byte, error)   { return doMarshal(numCase(n)) }
func (n *Num) set(c int, p string) {
	l := cur
	if l != nil && c >= 1 && c <= len(l.specs) && p == l.specs[c-1].payload {
		*n = Num(c)
		return
	}
	*n = Num(1000 + c)
}
func (n *Num) UnmarshalText(b []byte) error   { return doUnmarshal(b, n.set) }
func (n *Num) UnmarshalBinary(b []byte) error { return doUnmarshal(b, n.set) }
func (n *Num) UnmarshalJSON(b []byte) error   { return doUnmarshal(b, n.set) }

// Byte is a uint8-kinded type under test (the kind of the README's own example type): the
// case number itself, a wrong result is 100 + case, its zero value is 0.
type Byte uint8

func byteCase(n Byte) int {
	if n >= 100 {
		return int(n) - 100
	}
	return int(n)
}

func (n Byte) MarshalText() ([]byte, error)   { return doMarshal(byteCase(n)) }
func (n Byte) MarshalBinary() ([]byte, error) { return doMarshal(byteCase(n)) }
func (n Byte) MarshalJSON() ([]byte, error)   { return doMarshal(byteCase(n)) }
func (n *Byte) set(c int, p string) {
	l := cur
	if l != nil && c >= 1 && c <= len(l.specs) && p == l.specs[c-1].payload {
		*n = Byte(c)
		return
	}
	*n = Byte(100 + c)
}
func (n *Byte) UnmarshalText(b []byte) error   { return doUnmarshal(b, n.set) }
func (n *Byte) UnmarshalBinary(b []byte) error { return doUnmarshal(b, n.set) }
func (n *Byte) UnmarshalJSON(b []byte) error   { return doUnmarshal(b, n.set) }
