package c20

import (
	"encoding"
	"encoding/json"
	"fmt"
	"reflect"
	"regexp"
	"runtime"

	"go.lstv.dev/util/internal/vsim/core"
	"go.lstv.dev/util/test"
)

func goexit() { runtime.Goexit() }

// shapes of the type under test
const (
	shV = iota
	shP
	shOnlyM
	shOnlyU
	shNone
	shIface    // T is an interface type (Both); values are *P or a nil interface
	shPV       // T is *V: a pointer to a type whose marshalers have value receivers
	shStr      // T is a string-kinded type
	shBytes    // T is a slice-kinded type
	shMap      // T is a map-kinded type
	shNum      // T is an integer-kinded type
	shByte     // T is a uint8-kinded type
	shDoc      // T is a struct with an interface-typed field holding a map
	shMemo     // T is *L, whose String method memoises into the value
	shTextOnly // T implements the text interfaces only
	shBinOnly  // T implements the binary interfaces only
	shJSONOnly // T implements the JSON interfaces only
	shPMap     // T is *Map: a pointer to a map-kinded type (empty means: points to a map without elements)
	shPval     // T is P itself: every method has a pointer receiver, so P lacks the marshal interfaces (only *P has them) and is decoded through &value
	numShapes
)

// Both is an interface-typed T: the helpers are generic over any T, and a case of such a
// list may carry a nil interface value.
type Both interface {
	encoding.TextMarshaler
	encoding.BinaryMarshaler
	json.Marshaler
	encoding.TextUnmarshaler
	encoding.BinaryUnmarshaler
	json.Unmarshaler
}

// Narrow is an interface-typed T whose static method set has one of the six methods only: the
// values in it (*P, *Q) have all of them.
type Narrow interface {
	MarshalText() ([]byte, error)
}

var shapeNames = [...]string{"V(value marshalers, pointer unmarshalers)", "*P(pointer type)", "OnlyM", "OnlyU", "None", "Both(interface-typed T holding *P or nil)", "*V(pointer to value-receiver type)", "Str(string kind)", "Bytes(slice kind)", "Map(map kind)", "Num(integer kind)", "Byte(uint8 kind)", "Doc(struct with an interface-typed field holding a map)", "*L(String memoises into the value)", "TextOnly", "BinOnly", "JSONOnly", "*Map(pointer to a map kind)", "P(value type whose methods all have pointer receivers)"}
var helperNames = [...]string{"MarshalText", "UnmarshalText", "MarshalBinary", "UnmarshalBinary", "MarshalJSON", "UnmarshalJSON"}

// listSpec is one helper invocation.
type listSpec struct {
	enc        int
	dir        int
	shape      int
	goexit     bool
	prelude    int  // 1..4: another helper (other encoding; 3, 4: other direction too) runs on the same T first, with no reset in between
	nilErr     bool // interface shape: nil-interface cases after the first keep their expected error; such a list is judged for containment only
	narrow     bool // interface shape: T is Narrow, an interface type that names only one of the six methods
	typeHelper int  // 0 none, 1 recording (symmetric), 2 recording with an asymmetric AssertEqual (zero fields of expected are not compared), 3 recording and prototype-cloning (New carries V.Mode over from its argument)
	cases      []caseSpec
}

func (ls listSpec) helper() string { return helperNames[ls.enc*2+ls.dir] }

// hasInterface: does the shape implement the interface this helper needs?
func (ls listSpec) hasInterface() bool {
	switch ls.shape {
	case shV, shP, shIface, shPV, shStr, shBytes, shMap, shNum, shByte, shDoc, shMemo, shPMap:
		return true
	case shOnlyM:
		return ls.dir == dirMarshal
	case shOnlyU, shPval:
		return ls.dir == dirUnmarshal
	case shTextOnly:
		return ls.enc == kText
	case shBinOnly:
		return ls.enc == kBinary
	case shJSONOnly:
		return ls.enc == kJSON
	}
	return false
}

// ---------------------------------------------------------------------------------------
// oracle, written from the statement

func applicable(dir, constraint int) bool {
	return constraint == 0 || (constraint == 1 && dir == dirMarshal) || (constraint == 2 && dir == dirUnmarshal)
}

// predMet: is the case's error predicate met by what the scripted call does?
func predMet(c caseSpec) bool {
	failed := c.beh != bRight && c.beh != bWrong && c.beh != bNothing && c.beh != bEmptied
	if c.beh == bReturnBadError {
		// the error is there but its text cannot be had: only predicates that do not read it can be met
		return c.pred == pAny || c.pred == pCustomAccept || c.pred == pCustomAcceptNil
	}
	switch c.pred {
	case pCustomAcceptNil:
		return true
	case pMatchDotAll:
		return failed && !c.isPanic()
	case pAny, pPrefixMet, pMatchMet, pPrefixEmpty, pSuffixEmpty, pCustomAccept, pMatchEmpty:
		return failed
	case pExactMet, pSuffixMet:
		// built from the complete scripted error text; a panic's text continues with a
		// stack trace that no script knows, so these are only generated for non-panics
		return failed && !c.isPanic()
	}
	return false
}

// resultNonEmpty: does the call leave a non-empty result behind?
func resultNonEmpty(dir int, c caseSpec) bool {
	switch c.beh {
	case bRight, bWrong, bErrorWithData:
		return true
	case bErrorEmptied, bEmptied:
		return false // empty though not nil
	case bPanicAfterSet:
		return dir == dirUnmarshal
	}
	return false
}

// unsatisfied: an applicable case is not satisfied iff a hook fails, or (error expected) the
// predicate is unmet or met with a non-empty result, or (no error expected) the call fails
// or its data/value differs.
func unsatisfied(dir int, c caseSpec) bool {
	if c.before == hError || c.before == hPanic || c.before == hPanicBadError {
		return true
	}
	if c.after == hError || c.after == hPanic || c.after == hPanicBadError {
		return true
	}
	if c.pred != pNone {
		if !predMet(c) {
			return true
		}
		return resultNonEmpty(dir, c)
	}
	if c.nilValue && dir == dirUnmarshal {
		// no decoded value can equal a nil pointer
		return true
	}
	if c.nilIface {
		// a nil interface value can neither be marshaled nor be the target of a decode
		return true
	}
	if c.emptyData && dir == dirMarshal {
		// the case expects no data: only a marshaler that returns nothing (and no error) matches
		return c.beh != bNothing
	}
	if c.nilExpect && dir == dirUnmarshal {
		// the listed value is nil: only a decoder that leaves the fresh (nil) value alone matches it
		return c.beh != bNothing
	}
	if c.wildcard && dir == dirUnmarshal {
		// the asymmetric TypeHelper compares the case number only: a decode that sets any
		// payload for the right case is accepted
		return c.beh != bRight && c.beh != bWrong
	}
	return c.beh != bRight
}

// ---------------------------------------------------------------------------------------
// building the real case lists

func hook[C any](l *listRun, i, kind int, phase string) func(int, *C) error {
	switch kind {
	case hAbsent:
		return nil
	case hPass:
		return func(idx int, _ *C) error { l.hookIndex(phase, i, idx); l.seen(phase, i); return nil }
	case hError:
		return func(idx int, _ *C) error {
			l.hookIndex(phase, i, idx)
			l.seen(phase, i)
			return fmt.Errorf("scripted %s hook failure %d", phase, i)
		}
	}
	if kind == hPanicBadError {
		return func(idx int, _ *C) error {
			l.hookIndex(phase, i, idx)
			l.seen(phase, i)
			panic((*badErr)(nil))
		}
	}
	return func(idx int, _ *C) error {
		l.hookIndex(phase, i, idx)
		l.seen(phase, i)
		panic(fmt.Sprintf("scripted %s hook panic %d", phase, i))
	}
}

func predicate(c caseSpec, i int) test.AssertErrorFunc {
	head := c.errHead(i)
	if head == "" {
		head = fmt.Sprintf("scripted failure %d", i)
	}
	short := head
	if len(short) > 9 {
		short = short[:9]
	}
	switch c.pred {
	case pNone:
		return nil
	case pAny:
		return test.AnyError
	case pExactMet:
		return test.Error(head)
	case pExactUnmet:
		return test.Error("some other text")
	case pExactNear:
		return test.Error(head[:len(head)-1])
	case pPrefixMet:
		return test.ErrorHasPrefix(head) // the whole known beginning, including any '%' in it
	case pPrefixUnmet:
		return test.ErrorHasPrefix("zzz")
	case pPrefixNear:
		return test.ErrorHasPrefix(short[1:])
	case pSuffixMet:
		return test.ErrorHasSuffix(head[len(head)/2:])
	case pSuffixUnmet:
		return test.ErrorHasSuffix("\x00zzz")
	case pSuffixNear:
		return test.ErrorHasSuffix(head[1 : len(head)-1])
	case pMatchMet:
		return test.ErrorMatch("^" + regexp.QuoteMeta(head))
	case pMatchUnmet:
		return test.ErrorMatch("^zzz$")
	case pMatchNear:
		return test.ErrorMatch("^" + regexp.QuoteMeta(short) + "$")
	case pExactLonger:
		return test.Error(head + "x")
	case pExactEmpty:
		return test.Error("")
	case pPrefixLonger:
		return test.ErrorHasPrefix(head + "x")
	case pPrefixEmpty:
		return test.ErrorHasPrefix("")
	case pSuffixLonger:
		return test.ErrorHasSuffix("x" + head)
	case pSuffixEmpty:
		return test.ErrorHasSuffix("")
	case pCustomAccept:
		return func(t test.TestingT, err error, failInfo string) bool { return err != nil }
	case pCustomReject:
		return func(t test.TestingT, err error, failInfo string) bool { return false }
	case pCustomAcceptNil:
		return func(t test.TestingT, err error, failInfo string) bool { return true }
	case pMatchDotAll:
		return test.ErrorMatch("^" + regexp.QuoteMeta(short) + ".+$")
	case pCustomFailNow:
		return func(t test.TestingT, err error, failInfo string) bool { t.FailNow(); return false }
	case pMatchEmpty:
		return test.ErrorMatch(".*")
	}
	return test.ErrorMatch("(")
}

var constraints = [...]test.Constraint{0, test.OnlyMarshal, test.OnlyUnmarshal}

// recHelper is a recording TypeHelper with its own, correct, comparisons.
type recHelper[T any] struct {
	l     *listRun
	asym  bool
	clone bool // New carries the Mode of its argument over (prototype cloning), for T = V
}

func (h recHelper[T]) New(value T) T {
	h.l.events = append(h.l.events, event{"typehelper.New", h.l.lastSeen})
	if h.clone {
		if pv, ok := any(value).(*V); ok && pv != nil {
			return any(&V{Mode: pv.Mode}).(T) // a fresh target that carries the prototype's configuration
		}
	}
	if t := reflect.TypeOf(value); t != nil && t.Kind() == reflect.Ptr {
		return reflect.New(t.Elem()).Interface().(T)
	}
	var z T
	if h.clone {
		if pv, ok := any(value).(V); ok {
			return any(V{Mode: pv.Mode}).(T)
		}
	}
	return z
}

func isZero(v interface{}) bool {
	if v == nil {
		return true
	}
	rv := reflect.ValueOf(v)
	if rv.Kind() == reflect.Ptr {
		if rv.IsNil() {
			return true
		}
		rv = rv.Elem()
	}
	return rv.IsZero()
}

func (h recHelper[T]) AssertEmpty(t test.TestingT, value T, failInfo string) {
	h.l.events = append(h.l.events, event{"typehelper.AssertEmpty", h.l.lastSeen})
	empty := isZero(value)
	rv := reflect.ValueOf(value)
	if rv.IsValid() && rv.Kind() == reflect.Ptr && !rv.IsNil() {
		rv = rv.Elem() // a pointer to a collection is as empty as the collection
	}
	if rv.IsValid() && (rv.Kind() == reflect.Slice || rv.Kind() == reflect.Map) && rv.Len() == 0 {
		empty = true // this helper's notion of empty for collections: no elements
	}
	if pv, ok := any(value).(V); ok && h.clone && pv.Case == 0 && pv.Payload == "" {
		empty = true // a fresh prototype clone carries its mode and nothing else
	}
	if pv, ok := any(value).(*V); ok && h.clone && pv != nil && pv.Case == 0 && pv.Payload == "" {
		empty = true
	}
	if !empty {
		t.Errorf("typehelper: not empty: %s", failInfo)
	}
}

func (h recHelper[T]) AssertEqual(t test.TestingT, expected, actual T, failInfo string) {
	h.l.events = append(h.l.events, event{"typehelper.AssertEqual", h.l.lastSeen})
	eq := reflect.DeepEqual(expected, actual)
	if h.asym {
		eq = matches(reflect.ValueOf(expected), reflect.ValueOf(actual))
	}
	if !eq {
		t.Errorf("typehelper: not equal: %s", failInfo)
	}
}

// matches is an asymmetric comparison: zero-valued fields of expected are wildcards.
func matches(exp, act reflect.Value) bool {
	for exp.Kind() == reflect.Ptr || exp.Kind() == reflect.Interface {
		if exp.IsNil() {
			return !act.IsValid() || ((act.Kind() == reflect.Ptr || act.Kind() == reflect.Interface) && act.IsNil())
		}
		if !act.IsValid() || (act.Kind() != reflect.Ptr && act.Kind() != reflect.Interface) || act.IsNil() {
			return false
		}
		exp, act = exp.Elem(), act.Elem()
	}
	if exp.Kind() != reflect.Struct || act.Kind() != reflect.Struct || exp.Type() != act.Type() {
		return reflect.DeepEqual(exp.Interface(), act.Interface())
	}
	for i := 0; i < exp.NumField(); i++ {
		if exp.Field(i).IsZero() {
			continue
		}
		if !reflect.DeepEqual(exp.Field(i).Interface(), act.Field(i).Interface()) {
			return false
		}
	}
	return true
}

func runEnc[T any](l *listRun, ls listSpec, mk func(i int, c caseSpec) T) {
	rec := &recorder{l}
	var th test.TypeHelper[T]
	if ls.typeHelper != 0 {
		th = recHelper[T]{l, ls.typeHelper == 2, ls.typeHelper == 3}
	}
	// listed is the case as the caller wrote it; right is what its Before hook turns it into
	// when the case is of the "adjust" kind
	jsonDoc := ls.enc == kJSON && ls.dir == dirMarshal
	rightData := func(i int, c caseSpec) string {
		if ls.dir == dirMarshal {
			return c.marshalData(i, jsonDoc)
		}
		return c.data(i)
	}
	listedData := func(i int, c caseSpec) string {
		if (c.adjust || c.adjustAfter) && ls.dir == dirMarshal {
			return rightData(i, c) + "#listed-wrong"
		}
		return rightData(i, c)
	}
	binData := func(s string, c caseSpec) []byte {
		if c.emptyData && s == "" {
			return nil // the Binary helper compares slices: no data is a nil slice
		}
		if c.nilData && ls.dir == dirUnmarshal {
			return nil // the case lists no input at all
		}
		return []byte(s)
	}
	listedValue := func(i int, c caseSpec) T {
		if c.nilExpect || (c.adjust && ls.dir == dirUnmarshal && ls.shape == shIface && i > 0) {
			var z T // nil slice / map; for the interface shape: the hook will supply the value
			return z
		}
		if (c.adjust || c.adjustAfter) && ls.dir == dirUnmarshal {
			w := c
			w.payload += "#listed-wrong"
			return mk(i, w)
		}
		if c.wildcard {
			w := c
			w.payload = ""
			return mk(i, w)
		}
		return mk(i, c)
	}
	listedPred := func(i int, c caseSpec) test.AssertErrorFunc {
		if !c.adjustPred {
			return predicate(c, i)
		}
		if c.pred == pNone {
			return test.AnyError // listed as if an error were expected; the hook clears it
		}
		return nil // listed as if none were expected; the hook installs the predicate
	}
	switch ls.enc {
	case kText:
		cases := make([]test.CaseText[T], len(ls.cases))
		for i, c := range ls.cases {
			cases[i] = test.CaseText[T]{Constraint: constraints[c.constraint], Before: hook[test.CaseText[T]](l, i, c.before, "before"), After: hook[test.CaseText[T]](l, i, c.after, "after"),
				Error: listedPred(i, c), Data: listedData(i, c), Value: listedValue(i, c)}
			if c.beforeSetsAfter {
				i := i
				after := cases[i].After
				cases[i].After = nil
				cases[i].Before = func(idx int, cc *test.CaseText[T]) error {
					l.hookIndex("before", i, idx)
					l.seen("before", i)
					cc.After = after
					return nil
				}
			}
			if c.adjustAfter {
				i, c := i, c
				cases[i].After = func(idx int, cc *test.CaseText[T]) error {
					l.hookIndex("after", i, idx)
					l.seen("after", i)
					if ls.dir == dirMarshal {
						cc.Data = rightData(i, c)
					} else {
						cc.Value = mk(i, c)
					}
					return nil
				}
			}
			if c.adjust {
				i, c := i, c
				cases[i].Before = func(idx int, cc *test.CaseText[T]) error {
					l.hookIndex("before", i, idx)
					l.seen("before", i)
					cc.Data = rightData(i, c)
					cc.Value = mk(i, c)
					if c.adjustPred {
						cc.Error = predicate(c, i)
					}
					return nil
				}
			}
		}
		if ls.dir == dirMarshal {
			test.MarshalText(rec, cases)
		} else {
			test.UnmarshalText(rec, cases, th)
		}
	case kBinary:
		cases := make([]test.CaseBinary[T], len(ls.cases))
		for i, c := range ls.cases {
			cases[i] = test.CaseBinary[T]{Constraint: constraints[c.constraint], Before: hook[test.CaseBinary[T]](l, i, c.before, "before"), After: hook[test.CaseBinary[T]](l, i, c.after, "after"),
				Error: listedPred(i, c), Data: binData(listedData(i, c), c), Value: listedValue(i, c)}
			if c.beforeSetsAfter {
				i := i
				after := cases[i].After
				cases[i].After = nil
				cases[i].Before = func(idx int, cc *test.CaseBinary[T]) error {
					l.hookIndex("before", i, idx)
					l.seen("before", i)
					cc.After = after
					return nil
				}
			}
			if c.adjustAfter {
				i, c := i, c
				cases[i].After = func(idx int, cc *test.CaseBinary[T]) error {
					l.hookIndex("after", i, idx)
					l.seen("after", i)
					if ls.dir == dirMarshal {
						cc.Data = binData(rightData(i, c), c)
					} else {
						cc.Value = mk(i, c)
					}
					return nil
				}
			}
			if c.adjust {
				i, c := i, c
				cases[i].Before = func(idx int, cc *test.CaseBinary[T]) error {
					l.hookIndex("before", i, idx)
					l.seen("before", i)
					cc.Data = binData(rightData(i, c), c)
					cc.Value = mk(i, c)
					if c.adjustPred {
						cc.Error = predicate(c, i)
					}
					return nil
				}
			}
		}
		if ls.dir == dirMarshal {
			test.MarshalBinary(rec, cases)
		} else {
			test.UnmarshalBinary(rec, cases, th)
		}
	case kJSON:
		cases := make([]test.CaseJSON[T], len(ls.cases))
		for i, c := range ls.cases {
			cases[i] = test.CaseJSON[T]{Constraint: constraints[c.constraint], Before: hook[test.CaseJSON[T]](l, i, c.before, "before"), After: hook[test.CaseJSON[T]](l, i, c.after, "after"),
				Error: listedPred(i, c), Data: listedData(i, c), Value: listedValue(i, c)}
			if c.beforeSetsAfter {
				i := i
				after := cases[i].After
				cases[i].After = nil
				cases[i].Before = func(idx int, cc *test.CaseJSON[T]) error {
					l.hookIndex("before", i, idx)
					l.seen("before", i)
					cc.After = after
					return nil
				}
			}
			if c.adjustAfter {
				i, c := i, c
				cases[i].After = func(idx int, cc *test.CaseJSON[T]) error {
					l.hookIndex("after", i, idx)
					l.seen("after", i)
					if ls.dir == dirMarshal {
						cc.Data = rightData(i, c)
					} else {
						cc.Value = mk(i, c)
					}
					return nil
				}
			}
			if c.adjust {
				i, c := i, c
				cases[i].Before = func(idx int, cc *test.CaseJSON[T]) error {
					l.hookIndex("before", i, idx)
					l.seen("before", i)
					cc.Data = rightData(i, c)
					cc.Value = mk(i, c)
					if c.adjustPred {
						cc.Error = predicate(c, i)
					}
					return nil
				}
			}
		}
		if ls.dir == dirMarshal {
			test.MarshalJSON(rec, cases)
		} else {
			test.UnmarshalJSON(rec, cases, th)
		}
	}
}

// execList runs one helper invocation and returns the recording; escaped is the panic that
// left the helper, if any.
func execList(ls listSpec, keepMsgs bool) (l *listRun, escaped interface{}) {
	resetPackages() // every judged helper invocation starts from package test's initial state ...
	if ls.prelude > 0 {
		// ... or from what one earlier invocation of another helper on the same T has left behind
		// (caches of reflection results): a list of one satisfied case, its recording thrown away
		pl := ls
		pl.prelude = 0
		pl.enc = (ls.enc + 1 + (ls.prelude-1)%2) % 3
		if ls.prelude > 2 {
			pl.dir = 1 - ls.dir
		}
		pl.cases = []caseSpec{{payload: "x"}}
		normalise(&pl)
		execNoReset(pl, false)
	}
	return execNoReset(ls, keepMsgs)
}

func execNoReset(ls listSpec, keepMsgs bool) (l *listRun, escaped interface{}) {
	l = &listRun{specs: ls.cases, enc: ls.enc, jsonDoc: ls.enc == kJSON && ls.dir == dirMarshal, lastSeen: -1, failures: make([]int, len(ls.cases)), goexit: ls.goexit, keepMsgs: keepMsgs}
	l.cloneCfg = ls.typeHelper == 3 && ls.shape == shPV && ls.dir == dirUnmarshal
	cur = l
	defer func() { cur = nil }()
	body := func() {
		switch ls.shape {
		case shV:
			runEnc(l, ls, func(i int, c caseSpec) V {
				v := V{Case: i + 1, Payload: c.payload}
				if ls.typeHelper == 3 {
					v.Mode = "mode:" + c.payload // the listed-wrong value of an adjusting case carries a wrong mode too
				}
				return v
			})
		case shP:
			runEnc(l, ls, func(i int, c caseSpec) *P {
				if c.beh == bNilReceiver || (c.nilValue && ls.dir == dirUnmarshal) {
					return nil
				}
				return &P{i + 1, c.payload}
			})
		case shOnlyM:
			runEnc(l, ls, func(i int, c caseSpec) OnlyM { return OnlyM{i + 1, c.payload} })
		case shOnlyU:
			runEnc(l, ls, func(i int, c caseSpec) OnlyU { return OnlyU{i + 1, c.payload} })
		case shNone:
			runEnc(l, ls, func(i int, c caseSpec) None { return None{i + 1, c.payload} })
		case shStr:
			runEnc(l, ls, func(i int, c caseSpec) Str { return Str(kindValue(i+1, c.payload)) })
		case shBytes:
			runEnc(l, ls, func(i int, c caseSpec) Bytes { return Bytes(kindValue(i+1, c.payload)) })
		case shMap:
			runEnc(l, ls, func(i int, c caseSpec) Map { return Map{"c": kindValue(i+1, c.payload)} })
		case shNum:
			runEnc(l, ls, func(i int, c caseSpec) Num { return Num(i + 1) })
		case shByte:
			runEnc(l, ls, func(i int, c caseSpec) Byte { return Byte(i + 1) })
		case shPval:
			runEnc(l, ls, func(i int, c caseSpec) P { return P{i + 1, c.payload} })
		case shTextOnly:
			runEnc(l, ls, func(i int, c caseSpec) TextOnly { return TextOnly{i + 1, c.payload} })
		case shBinOnly:
			runEnc(l, ls, func(i int, c caseSpec) BinOnly { return BinOnly{i + 1, c.payload} })
		case shJSONOnly:
			runEnc(l, ls, func(i int, c caseSpec) JSONOnly { return JSONOnly{i + 1, c.payload} })
		case shPMap:
			runEnc(l, ls, func(i int, c caseSpec) *Map {
				if c.beh == bNilReceiver || (c.nilValue && ls.dir == dirUnmarshal) {
					return nil
				}
				m := Map{"c": kindValue(i+1, c.payload)}
				return &m
			})
		case shDoc:
			runEnc(l, ls, func(i int, c caseSpec) Doc { return Doc{i + 1, c.payload, docBody(i+1, false)} })
		case shMemo:
			runEnc(l, ls, func(i int, c caseSpec) *L {
				if c.beh == bNilReceiver || (c.nilValue && ls.dir == dirUnmarshal) {
					return nil
				}
				return &L{Case: i + 1, Payload: c.payload}
			})
		case shPV:
			runEnc(l, ls, func(i int, c caseSpec) *V {
				if c.beh == bNilReceiver || (c.nilValue && ls.dir == dirUnmarshal) {
					return nil
				}
				if ls.typeHelper == 3 {
					// with the prototype-cloning TypeHelper the listed value carries configuration; a
					// case that expects an error lists nothing but that (what a table of real tests does)
					v := &V{Case: i + 1, Payload: c.payload, Mode: "mode:" + c.payload}
					if ls.dir == dirUnmarshal && c.pred != pNone && !c.adjustPred {
						v.Case, v.Payload = 0, ""
					}
					return v
				}
				return &V{Case: i + 1, Payload: c.payload}
			})
		case shIface:
			if ls.narrow {
				runEnc(l, ls, func(i int, c caseSpec) Narrow {
					if c.nilIface {
						return nil
					}
					if c.other {
						return &Q{i + 1, c.payload, true}
					}
					return &P{i + 1, c.payload}
				})
				break
			}
			runEnc(l, ls, func(i int, c caseSpec) Both {
				if c.nilIface {
					return nil
				}
				if c.other {
					return &Q{i + 1, c.payload, true}
				}
				return &P{i + 1, c.payload}
			})
		}
	}
	if ls.goexit {
		// *testing.T's FailNow ends the goroutine: give the helper its own and await it
		done := make(chan struct{})
		go func() {
			defer close(done)
			defer func() { escaped = recover() }()
			body()
		}()
		<-done
		return l, escaped
	}
	func() {
		defer func() { escaped = recover() }()
		body()
	}()
	return l, escaped
}

// judge compares the recording with the oracle. It returns the first discrepancy.
func judge(ls listSpec, l *listRun, escaped interface{}) *core.Violation {
	h := ls.helper()
	mk := func(inv, key, detail string) *core.Violation {
		return &core.Violation{Property: "C20", Invariant: inv, Key: h + ":" + key, Detail: fmt.Sprintf("%s on %s (FailNow %s, TypeHelper %d): %s", h, shapeNames[ls.shape], map[bool]string{false: "returns", true: "exits goroutine"}[ls.goexit], ls.typeHelper, detail)}
	}
	// L3 containment
	if escaped != nil {
		return mk("L3-panic-escaped", "escaped", fmt.Sprintf("a panic escaped the helper: %v", escaped))
	}
	if ls.nilErr {
		// a nil interface value together with an expected error: whether the error that calling
		// it produces satisfies the case is not something the statement settles; that no panic
		// leaves the helper is unconditional
		return nil
	}
	if len(ls.cases) > 0 && ls.cases[0].nilIface {
		// the first case lists a nil interface value: it can neither be marshaled nor decoded
		// into, so the list has an unsatisfied applicable case and some failure is due; where
		// the helper reports it (type check or call) is its own business
		total := l.listFail
		for _, f := range l.failures {
			total += f
		}
		if total == 0 {
			return mk("L2-missed-failure", "first-case-nil-interface", "the first case lists a nil interface value and is applicable, but no test failure was reported")
		}
		return nil
	}
	if !ls.hasInterface() {
		total := l.listFail
		for _, f := range l.failures {
			total += f
		}
		if len(ls.cases) > 0 && total == 0 {
			return mk("L1-missed-failure", "lacking-interface", "the type lacks the interface and the list is non-empty, but no test failure was reported")
		}
		return nil
	}
	// with the interface present nothing may fail before the first collaborator runs
	if l.listFail > 0 {
		return mk("L1-false-failure", "list-level", fmt.Sprintf("a failure was reported before any case ran although the type implements the interface: %v", l.msgs))
	}
	if len(l.badIndex) > 0 {
		return mk("L5-hook-index", "hook-index", "a hook was handed an index that is not its case's position in the list: "+l.badIndex[0])
	}
	for _, e := range l.events {
		if e.what == "unscripted" {
			return mk("L2-wrong-call", "unscripted", fmt.Sprintf("the type under test was called with data or a value that belongs to no case (index %d)", e.idx))
		}
	}
	// L4 isolation: a case restricted to the other direction is ignored entirely
	for _, e := range l.events {
		if e.idx >= 0 && e.idx < len(ls.cases) && !applicable(ls.dir, ls.cases[e.idx].constraint) {
			if e.what == "errorf" || e.what == "failnow" {
				return mk("L4-inapplicable-reported", "inapplicable:"+ls.cases[e.idx].sig(), fmt.Sprintf("case %d is restricted to the other direction but a failure was reported for it", e.idx))
			}
			return mk("L4-inapplicable-run", "inapplicable:"+ls.cases[e.idx].sig(), fmt.Sprintf("case %d is restricted to the other direction but its %s collaborator was invoked", e.idx, e.what))
		}
	}
	// L2 per case: failure reported <=> applicable and unsatisfied
	for i, c := range ls.cases {
		if !applicable(ls.dir, c.constraint) {
			continue
		}
		if l.exited && i > l.exitedAt {
			break // a collaborator called FailNow and the TestingT ended the goroutine, as *testing.T does: the rest of the list was never run
		}
		want := unsatisfied(ls.dir, c)
		got := l.failures[i] > 0
		if want && !got {
			return mk("L2-missed-failure", "missed:"+c.sig(), fmt.Sprintf("case %d of %d {%s} is not satisfied but no failure was reported for it", i, len(ls.cases), c.sig()))
		}
		if !want && got {
			return mk("L2-false-failure", "false:"+c.sig(), fmt.Sprintf("case %d of %d {%s} is satisfied but a failure was reported for it: %v", i, len(ls.cases), c.sig(), l.msgs))
		}
	}
	return nil
}

// normalise removes the combinations the statement leaves open or that cannot be scripted.
func normalise(ls *listSpec) {
	for i := range ls.cases {
		c := &ls.cases[i]
		ptrShape := ls.shape == shP || ls.shape == shPV || ls.shape == shMemo || ls.shape == shPMap
		if c.beh == bNilReceiver && (!ptrShape || ls.dir != dirMarshal) {
			c.beh = bPanicString
		}
		if c.beh == bPanicAfterSet && ls.dir == dirMarshal {
			c.beh = bPanicString
		}
		if c.nilValue && (!ptrShape || ls.dir != dirUnmarshal) {
			c.nilValue = false
		}
		if c.adjust && (c.before != hAbsent && c.before != hPass || c.nilValue || c.nilIface || c.beh == bNilReceiver) {
			c.adjust = false
		}
		if c.adjust {
			c.before = hPass
		}
		if c.adjust && (ls.shape == shNum || ls.shape == shByte) && ls.dir == dirUnmarshal {
			c.adjust = false // an integer has no room for a "listed wrong" payload
		}
		emptyKinds := ls.shape == shBytes || ls.shape == shMap || ls.shape == shPMap
		if (c.beh == bErrorEmptied || c.beh == bEmptied) && (!emptyKinds || ls.dir != dirUnmarshal) {
			if c.beh == bErrorEmptied {
				c.beh = bError
			} else {
				c.beh = bNothing
			}
		}
		if c.nilExpect && (!emptyKinds || ls.shape == shPMap || ls.dir != dirUnmarshal || c.adjust || c.wildcard || c.pred != pNone) {
			c.nilExpect = false
		}
		if c.other && ls.shape != shIface {
			c.other = false
		}
		if c.nilData && (ls.enc != kBinary || ls.dir != dirUnmarshal || c.nilValue || c.nilIface || c.adjust || c.wildcard || c.nilExpect || (c.before != hAbsent && c.before != hPass)) {
			c.nilData = false
		}
		if c.nilData {
			c.before = hPass // announces the case: empty input carries no case number
		}
		if c.emptyData && (ls.dir != dirMarshal || c.pred != pNone || c.adjust || c.beh == bNilReceiver) {
			c.emptyData = false
		}
		if c.wrongKind == wJSONEquivalent && !(ls.enc == kJSON && ls.dir == dirMarshal) {
			c.wrongKind = wTilde
		}
		if c.wrongKind == wInvalidByte && ls.enc == kJSON && ls.dir == dirMarshal {
			c.wrongKind = wTilde // the JSON documents are built with json.Marshal, which replaces invalid bytes
		}
		if ls.shape == shByte && i >= 90 {
			c.constraint = 2 - ls.dir // a uint8 case number stays below the "wrong" offset
		}
		if c.wildcard && (ls.shape == shStr || ls.shape == shBytes || ls.shape == shMap || ls.shape == shNum || ls.shape == shByte || ls.shape == shMemo || ls.shape == shPMap || ls.typeHelper != 2 || ls.dir != dirUnmarshal || c.pred != pNone || c.nilValue || c.nilIface || c.adjust) {
			c.wildcard = false
		}
		if c.wildcard && ls.shape == shDoc && c.wrongKind == wDynType {
			c.wrongKind = wTilde // the open payload leaves the payload open, not what sits behind the interface field
		}
		if c.nilIface && i == 0 && ls.shape == shIface && applicable(ls.dir, c.constraint) && firstNil(*ls) {
			// on the first case the type check looks at the value: judged at list level only
			// (a failure is due, no panic may escape)
			c.pred = pNone
		} else if c.nilIface {
			if ls.shape != shIface || i == 0 {
				// a first case restricted to the other direction is left out: whether the
				// type check should look at it is not something the statement settles
				c.nilIface = false
			} else {
				// unambiguous only without an expected error; the call never reaches a
				// scripted method, so a passing Before hook marks the case
				c.pred = pNone
				if c.before == hAbsent {
					c.before = hPass
				}
			}
		}
		if c.isPanic() && (c.pred == pSuffixMet || c.pred == pExactMet) {
			// the complete text of a recovered panic includes a stack trace
			c.pred = pPrefixMet
		}
		if c.beh == bNilReceiver && c.before == hAbsent {
			// a nil receiver panics before the scripted method body can announce itself;
			// a passing Before hook marks the case boundary for the attribution instead
			c.before = hPass
		}
		if c.adjustAfter && (c.adjust || (c.after != hAbsent && c.after != hPass) || c.nilValue || c.nilIface || c.nilExpect || c.wildcard || c.emptyData || c.nilData || c.beh == bNilReceiver ||
			((ls.shape == shNum || ls.shape == shByte) && ls.dir == dirUnmarshal) || (ls.shape == shIface && ls.dir == dirUnmarshal) ||
			(ls.typeHelper == 3 && ls.dir == dirUnmarshal)) { // the cloning TypeHelper derives the fresh value from the listed one before the call

			c.adjustAfter = false
		}
		if c.adjustAfter {
			c.after = hPass
		}
		if c.beforeSetsAfter && (c.adjust || c.adjustAfter || c.before != hAbsent && c.before != hPass || c.after == hAbsent || c.nilValue || c.nilIface || c.nilData || c.beh == bNilReceiver) {
			c.beforeSetsAfter = false
		}
		if c.beforeSetsAfter {
			c.before = hPass
		}
		if c.adjustPred && !c.adjust {
			c.adjustPred = false // only a case with an adjusting Before hook has one that installs the predicate
		}
		if c.payload == "" {
			c.payload = "p"
		}
	}
	if !ls.hasInterface() || ls.dir == dirMarshal {
		ls.typeHelper = 0
	}
	if ls.typeHelper == 3 && ls.shape != shV && ls.shape != shPV {
		ls.typeHelper = 1
	}
}

// firstNil: one list in two with a nil interface value in its first case keeps it there.
func firstNil(ls listSpec) bool { return len(ls.cases)%2 == 1 }

func describe(ls listSpec) []string {
	out := []string{fmt.Sprintf("%s on %s, %d cases, FailNow-exits=%v, TypeHelper=%d", ls.helper(), shapeNames[ls.shape], len(ls.cases), ls.goexit, ls.typeHelper)}
	if ls.narrow {
		out = append(out, "  T is Narrow: an interface type naming MarshalText only (the values have all six methods)")
	}
	if ls.prelude > 0 {
		pl := ls
		pl.enc = (ls.enc + 1 + (ls.prelude-1)%2) % 3
		if ls.prelude > 2 {
			pl.dir = 1 - ls.dir
		}
		out = append(out, fmt.Sprintf("  preceded, with no reset of package test in between, by %s on the same T with one satisfied case", pl.helper()))
	}
	for i, c := range ls.cases {
		out = append(out, fmt.Sprintf("  case %d: %s payload=%q", i, c.sig(), c.payload))
	}
	return out
}

func describeRun(l *listRun) []string {
	var out []string
	for _, e := range l.events {
		out = append(out, fmt.Sprintf("  event %s case=%d", e.what, e.idx))
	}
	for _, m := range l.msgs {
		out = append(out, "  msg "+m)
	}
	return out
}
