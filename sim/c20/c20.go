package c20

import (
	"fmt"
	"strings"

	"go.lstv.dev/util/internal/vsim/core"
)

// Prop is the C20 check.
type Prop struct{}

// ID implements core.Property.
func (Prop) ID() string { return "C20" }

// Budget implements core.Property: seeded lists per batch.
func (Prop) Budget(tier string) int {
	if tier == "thorough" {
		return 12000000
	}
	return 250000
}

// Describe implements core.Property.
func (Prop) Describe() core.Description {
	return core.Description{
		Level: "fault_enumeration",
		Rule: "enumerated part (walked completely, every tier): 6 helpers x {V, *P} x 8 behaviours of the type under test x 4 Before x 4 After hook behaviours (a fifth, panicking with an error value whose Error method cannot be called, has a block of its own) x 25 predicate kinds (met, unmet, near-miss, one-byte-longer, empty, dot-must-not-cross-newline and three caller-written silent variants) x 3 constraints x 4 positions {only, first, middle, last of 3} (+ TypeHelper variants, + types lacking the interface under both FailNow environments); " +
			"seeded part: lists of 0-12 cases (one list in 40: 13-64 cases) with tape-chosen combinations, several faults per list, 19 type shapes (V, *P, *Map as a pointer to a map, TextOnly/BinOnly/JSONOnly implementing one encoding each, P as a value type with pointer-receiver methods, Doc with an interface-typed field, *L with a memoising String, *V, interface-typed Both holding *P or *Q, string-kinded Str, slice-kinded Bytes, map-kinded Map, integer-kinded Num, uint8-kinded Byte, OnlyM, OnlyU, None), both TestingT environments, optional recording TypeHelper, singleton re-runs of every case. " +
			"Oracle written from the statement: per case, failure reported <=> applicable and unsatisfied (L2), nothing for inapplicable cases (L4), no panic escapes (L3), type lacking the interface reported (L1), hooks receive their case's list position (L5). " +
			"A list is non-trivial if a collaborator fault fired in an applicable case; distinct = distinct (helper, shape, position class, constraint, behaviour, hooks, predicate, verdict) tuples reached",
		Assumptions: []string{
			"a panic of the type under test counts as an error whose text begins 'panic: <value>\\n' (pinned by the library's own Test_MarshalText_Panic and CHANGELOG 0.8.0)",
			"two corners the statement leaves open are not generated: an error returned with a non-nil but empty slice; hooks that mutate the case they are handed. A non-empty list for a type lacking the interface is expected to be reported whatever the constraints of its cases (the type is a property of T, not of a case; anchor: interface check on the first case)",
			"failures are attributed to cases by bracketing recorder events between the scripted collaborator invocations of consecutive cases",
			"lists longer than 64 cases and types other than the nineteen scripted shapes are outside the bound",
		},
		Real: []string{"test.MarshalText/Binary/JSON", "test.UnmarshalText/Binary/JSON", "callForCase, safe*, castToFunc, helperNew, helperAssert*", "AnyError/Error/ErrorHasPrefix/ErrorHasSuffix/ErrorMatch", "testify assert"},
		Stub: []string{"types under test (scripted V, *P, *V, interface-typed Both, Str, Bytes, Map, Num, OnlyM, OnlyU, None)", "Before/After hooks (scripted)", "TestingT (recorder; FailNow returns / exits goroutine)", "TypeHelper (recording)"},
		Notes: map[string]string{
			"sim_time_note": "C20 has no clock in it; sim_time_ns is 0 by construction",
		},
		RequiredProbesQuick: []string{"panic_recovered_call", "panic_recovered_hook", "error_with_data", "wrong_data_only", "inapplicable_faulty", "goexit_env", "invalid_regexp", "lacking_interface", "lacking_interface_all_inapplicable", "typehelper_used", "nil_receiver", "nil_value_unmarshal", "nil_interface_value", "long_list", "before_hook_adjusts_case", "asymmetric_typehelper_wildcard", "cloning_typehelper", "emptied_not_nil", "listed_nil_value", "second_concrete_type", "listed_empty_data", "json_equivalent_wrong_data", "lenient_equal_method", "panic_value_with_uncallable_error_method", "nil_interface_value_first_case", "listed_nil_input", "pointer_receiver_value_type", "before_hook_installs_or_clears_predicate", "big_payload", "interface_field_holding_a_map", "memoising_stringer", "other_dynamic_type_behind_interface", "single_encoding_type", "after_hook_adjusts_expectation", "pointer_to_emptied_map", "returned_error_with_uncallable_error_method", "before_hook_installs_after_hook", "predicate_fails_through_failnow", "case_index_ge_64"},
	}
}

// Prelude implements core.Property.
func (Prop) Prelude(o core.RunOpts) *core.Result { return core.NewResult() }

// ---- enumeration

const (
	nBeh  = 8 // bRight..bNothing (the nil receiver and the "emptied" behaviours have their own blocks below)
	nPos  = 4
	nCons = 3
)

// per (helper, shape{V,P}, typeHelper variant) block
const mainBlock = nBeh * nHook * nHook * numPreds * nCons * nPos

// EnumSize implements core.Property: 6 helpers x 2 shapes x (1 or 2 TypeHelper variants) main
// blocks, then the nil-receiver block, then the lacking-interface block.
func (Prop) EnumSize(tier string) int {
	return enumMain() + enumNil() + enumLacking() + enumNilValue() + enumExtras()
}

// extras: (a) the Before hook adjusts the expectation of its own case: 6 helpers x {V, *P} x
// behaviour x position; (b) ways of being wrong x payload ending in a newline or not: 6 x 2 x
// numWrong x 2 x {right, wrong}; (c) asymmetric TypeHelper with an open payload: 3 unmarshal
// helpers x {V, *P} x behaviour x position
func enumExtras() int {
	return 6*2*nBeh*nPos + 6*2*numWrong*2*2 + 3*2*nBeh*nPos + enumKinds() + enumAdjust2() + enumPreds2() + enumEmptyData() + enumWave7()
}

// (h) a value type whose methods all have pointer receivers (6 helpers x env x {1, 3 cases} x
// behaviour); panics whose value is an error with an uncallable Error method, raised by the
// call, the Before or the After hook (6 helpers x {V, *P} x 3 x 4 predicates x position); a
// nil interface value in the first case (6 helpers x env x {1, 3 cases} x 2 constraints); nil
// input data for the binary unmarshal helper ({V, *P} x behaviour x 3 predicates x position x
// TypeHelper {0, 1})
var (
	badErrPreds  = [...]int{pNone, pAny, pPrefixMet, pExactUnmet}
	nilDataPreds = [...]int{pNone, pAny, pCustomAccept}
)

func enumH1() int { return 6 * 2 * 2 * nBeh }
func enumH2() int { return 6 * 2 * 3 * len(badErrPreds) * nPos }
func enumH3() int { return 6 * 2 * 2 * 2 }
func enumH4() int { return 2 * nBeh * len(nilDataPreds) * nPos * 2 }
func enumWave7() int {
	return enumH1() + enumH2() + enumH3() + enumH4() + enumH5() + enumH6() + enumH7() + enumH8() + enumH9() + enumH10() + enumH11()
}

// Before hooks that install the After hook of their case: 6 helpers x {V, *P} x behaviour x
// After {pass, error, panic} x position
func enumH11() int { return 6 * 2 * nBeh * 3 * nPos }

// a returned error whose Error method panics: 6 helpers x {V, *P} x every predicate kind x position
func enumH10() int { return 6 * 2 * numPreds * nPos }

// After hooks that put the expectation right (6 helpers x {V, *P} x behaviour x position), and
// the pointer to a map (6 helpers x 10 behaviours incl. the emptied ones x {no predicate,
// AnyError} x position x TypeHelper {nil, recording})
func enumH9a() int { return 6 * 2 * nBeh * nPos }
func enumH9b() int { return 6 * len(kindBehs) * 2 * nPos * 2 }
func enumH9() int  { return enumH9a() + enumH9b() }

// types that implement one encoding only: 6 helpers x {TextOnly, BinOnly, JSONOnly} x both
// environments x {1, 3 cases} x behaviour
func enumH8() int { return 6 * 3 * 2 * 2 * nBeh }

// the struct with an interface-typed field and the memoising Stringer: 6 helpers x {Doc, *L} x
// behaviour x {no predicate, AnyError} x position x TypeHelper {nil, recording} x {+~,
// other dynamic type} as the way of being wrong
func enumH7() int { return 6 * 2 * nBeh * 2 * nPos * 2 * 2 }

// big payloads: 6 helpers x {V, *P} x ways of being wrong x {right, wrong}; hooks that install
// or clear the predicate of their own case: 6 helpers x {V, *P} x behaviour x {none, AnyError,
// HasPrefix(met), Error(unmet)} x position
func enumH5() int { return 6 * 2 * numWrong * 2 }
func enumH6() int { return 6 * 2 * nBeh * len(badErrPreds) * nPos }

func wave7Spec(r int) (ls listSpec, ok bool) {
	switch {
	case r < enumH1():
		c := caseSpec{payload: "x"}
		c.beh = r % nBeh
		r /= nBeh
		long := r%2 == 1
		r /= 2
		ls.goexit = r%2 == 1
		r /= 2
		ls.enc, ls.dir, ls.shape = r/2, r%2, shPval
		if c.beh == bPanicAfterSet && ls.dir == dirMarshal {
			return ls, false
		}
		ls.cases = []caseSpec{c}
		if long {
			ls.cases = []caseSpec{c, plain, plain}
		}
	case r < enumH1()+enumH2():
		r -= enumH1()
		c := caseSpec{payload: "x"}
		pos := r % nPos
		r /= nPos
		c.pred = badErrPreds[r%len(badErrPreds)]
		r /= len(badErrPreds)
		switch r % 3 {
		case 0:
			c.beh = bPanicBadError
		case 1:
			c.before = hPanicBadError
		default:
			c.after = hPanicBadError
		}
		r /= 3
		ls.shape = r % 2
		r /= 2
		ls.enc, ls.dir = r/2, r%2
		ls.cases = place(c, pos)
	case r < enumH1()+enumH2()+enumH3():
		r -= enumH1() + enumH2()
		c := caseSpec{payload: "x", nilIface: true}
		own := r%2 == 1
		r /= 2
		long := r%2 == 1
		r /= 2
		ls.goexit = r%2 == 1
		r /= 2
		ls.enc, ls.dir, ls.shape = r/2, r%2, shIface
		if own {
			c.constraint = 1 + ls.dir
		}
		ls.cases = []caseSpec{c}
		if long {
			ls.cases = []caseSpec{c, plain, plain}
		}
	case r >= enumH1()+enumH2()+enumH3()+enumH4()+enumH5()+enumH6()+enumH7()+enumH8()+enumH9()+enumH10():
		r -= enumH1() + enumH2() + enumH3() + enumH4() + enumH5() + enumH6() + enumH7() + enumH8() + enumH9() + enumH10()
		c := caseSpec{payload: "x", beforeSetsAfter: true}
		pos := r % nPos
		r /= nPos
		c.after = hPass + r%3
		r /= 3
		c.beh = r % nBeh
		r /= nBeh
		ls.shape = r % 2
		r /= 2
		ls.enc, ls.dir = r/2, r%2
		if c.beh == bPanicAfterSet && ls.dir == dirMarshal {
			return ls, false
		}
		ls.cases = place(c, pos)
	case r >= enumH1()+enumH2()+enumH3()+enumH4()+enumH5()+enumH6()+enumH7()+enumH8()+enumH9():
		r -= enumH1() + enumH2() + enumH3() + enumH4() + enumH5() + enumH6() + enumH7() + enumH8() + enumH9()
		c := caseSpec{payload: "x", beh: bReturnBadError}
		pos := r % nPos
		r /= nPos
		c.pred = r % numPreds
		r /= numPreds
		ls.shape = r % 2
		r /= 2
		ls.enc, ls.dir = r/2, r%2
		ls.cases = place(c, pos)
	case r >= enumH1()+enumH2()+enumH3()+enumH4()+enumH5()+enumH6()+enumH7()+enumH8()+enumH9a():
		r -= enumH1() + enumH2() + enumH3() + enumH4() + enumH5() + enumH6() + enumH7() + enumH8() + enumH9a()
		c := caseSpec{payload: "x"}
		ls.typeHelper = r % 2
		r /= 2
		pos := r % nPos
		r /= nPos
		if r%2 == 1 {
			c.pred = pAny
		}
		r /= 2
		c.beh = kindBehs[r%len(kindBehs)]
		r /= len(kindBehs)
		ls.shape = shPMap
		ls.enc, ls.dir = r/2, r%2
		if c.beh == bPanicAfterSet && ls.dir == dirMarshal {
			return ls, false
		}
		ls.cases = place(c, pos)
	case r >= enumH1()+enumH2()+enumH3()+enumH4()+enumH5()+enumH6()+enumH7()+enumH8():
		r -= enumH1() + enumH2() + enumH3() + enumH4() + enumH5() + enumH6() + enumH7() + enumH8()
		c := caseSpec{payload: "x", adjustAfter: true}
		c.beh = r % nBeh
		r /= nBeh
		pos := r % nPos
		r /= nPos
		ls.shape = r % 2
		r /= 2
		ls.enc, ls.dir = r/2, r%2
		if c.beh == bPanicAfterSet && ls.dir == dirMarshal {
			return ls, false
		}
		ls.cases = place(c, pos)
	case r >= enumH1()+enumH2()+enumH3()+enumH4()+enumH5()+enumH6()+enumH7():
		r -= enumH1() + enumH2() + enumH3() + enumH4() + enumH5() + enumH6() + enumH7()
		c := caseSpec{payload: "x"}
		c.beh = r % nBeh
		r /= nBeh
		long := r%2 == 1
		r /= 2
		ls.goexit = r%2 == 1
		r /= 2
		ls.shape = shTextOnly + r%3
		r /= 3
		ls.enc, ls.dir = r/2, r%2
		if c.beh == bPanicAfterSet && ls.dir == dirMarshal {
			return ls, false
		}
		ls.cases = []caseSpec{c}
		if long {
			ls.cases = []caseSpec{c, plain, plain}
		}
	case r >= enumH1()+enumH2()+enumH3()+enumH4()+enumH5()+enumH6():
		r -= enumH1() + enumH2() + enumH3() + enumH4() + enumH5() + enumH6()
		c := caseSpec{payload: "x"}
		if r%2 == 1 {
			c.wrongKind = wDynType
		}
		r /= 2
		ls.typeHelper = r % 2
		r /= 2
		pos := r % nPos
		r /= nPos
		if r%2 == 1 {
			c.pred = pAny
		}
		r /= 2
		c.beh = r % nBeh
		r /= nBeh
		ls.shape = [...]int{shDoc, shMemo}[r%2]
		r /= 2
		ls.enc, ls.dir = r/2, r%2
		if c.beh == bPanicAfterSet && ls.dir == dirMarshal {
			return ls, false
		}
		ls.cases = place(c, pos)
	case r >= enumH1()+enumH2()+enumH3()+enumH4()+enumH5():
		r -= enumH1() + enumH2() + enumH3() + enumH4() + enumH5()
		c := caseSpec{payload: "x", adjust: true, adjustPred: true}
		pos := r % nPos
		r /= nPos
		c.pred = badErrPreds[r%len(badErrPreds)]
		r /= len(badErrPreds)
		c.beh = r % nBeh
		r /= nBeh
		ls.shape = r % 2
		r /= 2
		ls.enc, ls.dir = r/2, r%2
		if c.beh == bPanicAfterSet && ls.dir == dirMarshal {
			return ls, false
		}
		ls.cases = place(c, pos)
	case r >= enumH1()+enumH2()+enumH3()+enumH4():
		r -= enumH1() + enumH2() + enumH3() + enumH4()
		c := caseSpec{payload: bigPayload}
		if r%2 == 1 {
			c.beh = bWrong
		}
		r /= 2
		c.wrongKind = r % numWrong
		r /= numWrong
		ls.shape = r % 2
		r /= 2
		ls.enc, ls.dir = r/2, r%2
		ls.cases = []caseSpec{c}
	default:
		r -= enumH1() + enumH2() + enumH3()
		c := caseSpec{payload: "x", nilData: true}
		ls.typeHelper = r % 2
		r /= 2
		pos := r % nPos
		r /= nPos
		c.pred = nilDataPreds[r%len(nilDataPreds)]
		r /= len(nilDataPreds)
		c.beh = r % nBeh
		r /= nBeh
		ls.shape = r % 2
		ls.enc, ls.dir = kBinary, dirUnmarshal
		ls.cases = place(c, pos)
	}
	normalise(&ls)
	return ls, true
}

// (g) cases that expect no data at all: 3 marshal helpers x {V, *P} x behaviour x position
func enumEmptyData() int { return 3 * 2 * nBeh * nPos }

// (e) adjusting Before hook where the fresh value depends on the adjusted case: V with a
// prototype-cloning TypeHelper, and interface-typed T whose listed value is nil and whose hook
// supplies it (positions first/middle/last of 3; *P and *Q): 3 unmarshal helpers x 2 x behaviour x 3
func enumAdjust2() int { return 3 * 3 * nBeh * 3 }

// (f) the two latest predicate kinds and a second concrete type for interface-typed T:
// 6 helpers x {V, *P, Both} x behaviour x {accept-nil, .+$} x position x {*P, *Q}
func enumPreds2() int { return 6 * 3 * nBeh * 2 * nPos * 2 }

// (d) string-, slice-, map-, integer- and uint8-kinded T: 6 helpers x {Str, Bytes, Map, Num, Byte} x behaviour (incl. emptied) x listed-nil x {no predicate,
// AnyError, Error(met), HasPrefix(unmet), custom silent accept} x position x TypeHelper {0, 1}
var kindPreds = [...]int{pNone, pAny, pExactMet, pPrefixUnmet, pCustomAccept, pCustomAcceptNil}

var kindBehs = [...]int{bRight, bWrong, bError, bErrorWithData, bPanicString, bPanicError, bPanicAfterSet, bNothing, bErrorEmptied, bEmptied}

func enumKinds() int { return 6 * 5 * len(kindBehs) * len(kindPreds) * nPos * 2 * 2 }

func extraSpec(r int) (ls listSpec, ok bool) {
	if base := enumExtras() - enumWave7(); r >= base {
		return wave7Spec(r - base)
	}
	a := 6 * 2 * nBeh * nPos
	b := 6 * 2 * numWrong * 2 * 2
	switch {
	case r < a:
		c := caseSpec{payload: "x", adjust: true}
		c.beh = r % nBeh
		r /= nBeh
		pos := r % nPos
		r /= nPos
		ls.shape = r % 2
		r /= 2
		ls.enc, ls.dir = r/2, r%2
		if c.beh == bPanicAfterSet && ls.dir == dirMarshal {
			return ls, false
		}
		ls.cases = place(c, pos)
	case r < a+b:
		r -= a
		c := caseSpec{payload: "x"}
		if r%2 == 1 {
			c.beh = bWrong
		}
		r /= 2
		if r%2 == 1 {
			c.payload = "line\n"
		}
		r /= 2
		c.wrongKind = r % numWrong
		r /= numWrong
		if c.wrongKind == wInvalidByte {
			c.payload = "caf\xe9 \xff" + c.payload
		}
		ls.shape = r % 2
		r /= 2
		ls.enc, ls.dir = r/2, r%2
		ls.cases = []caseSpec{c}
	case r >= a+b+3*2*nBeh*nPos+enumKinds()+enumAdjust2()+enumPreds2():
		r -= a + b + 3*2*nBeh*nPos + enumKinds() + enumAdjust2() + enumPreds2()
		c := caseSpec{payload: "x", emptyData: true}
		c.beh = r % nBeh
		r /= nBeh
		pos := r % nPos
		r /= nPos
		ls.shape = r % 2
		r /= 2
		ls.enc, ls.dir = r, dirMarshal
		if c.beh == bPanicAfterSet {
			return ls, false
		}
		ls.cases = place(c, pos)
	case r >= a+b+3*2*nBeh*nPos+enumKinds()+enumAdjust2():
		r -= a + b + 3*2*nBeh*nPos + enumKinds() + enumAdjust2()
		c := caseSpec{payload: "x"}
		c.other = r%2 == 1
		r /= 2
		pos := r % nPos
		r /= nPos
		c.pred = [...]int{pCustomAcceptNil, pMatchDotAll}[r%2]
		r /= 2
		c.beh = r % nBeh
		r /= nBeh
		ls.shape = [...]int{shV, shP, shIface}[r%3]
		r /= 3
		ls.enc, ls.dir = r/2, r%2
		if c.beh == bPanicAfterSet && ls.dir == dirMarshal {
			return ls, false
		}
		ls.cases = place(c, pos)
	case r >= a+b+3*2*nBeh*nPos+enumKinds():
		r -= a + b + 3*2*nBeh*nPos + enumKinds()
		c := caseSpec{payload: "x", adjust: true}
		pos := 1 + r%3
		r /= 3
		c.beh = r % nBeh
		r /= nBeh
		switch r % 3 {
		case 0:
			ls.shape, ls.typeHelper = shV, 3
		case 1:
			ls.shape = shIface
		default:
			ls.shape = shIface
			c.other = true
		}
		r /= 3
		ls.enc, ls.dir = r, dirUnmarshal
		ls.cases = place(c, pos)
	case r >= a+b+3*2*nBeh*nPos:
		r -= a + b + 3*2*nBeh*nPos
		c := caseSpec{payload: "x"}
		ls.typeHelper = r % 2
		r /= 2
		pos := r % nPos
		r /= nPos
		c.pred = kindPreds[r%len(kindPreds)]
		r /= len(kindPreds)
		c.beh = kindBehs[r%len(kindBehs)]
		r /= len(kindBehs)
		c.nilExpect = r%2 == 1
		r /= 2
		ls.shape = shStr + r%5
		r /= 5
		ls.enc, ls.dir = r/2, r%2
		if c.beh == bPanicAfterSet && ls.dir == dirMarshal {
			return ls, false
		}
		if c.isPanic() && c.pred == pExactMet {
			return ls, false
		}
		ls.cases = place(c, pos)
	default:
		r -= a + b
		c := caseSpec{payload: "x", wildcard: true}
		c.beh = r % nBeh
		r /= nBeh
		pos := r % nPos
		r /= nPos
		ls.shape = r % 2
		r /= 2
		ls.enc, ls.dir, ls.typeHelper = r, dirUnmarshal, 2
		ls.cases = place(c, pos)
	}
	normalise(&ls)
	return ls, true
}

// nil pointer as the listed value, unmarshal direction, *P: 3 encodings x behaviour x predicate x constraint x position x TypeHelper
func enumNilValue() int { return 3 * nBeh * numPreds * nCons * nPos * 2 }

func enumMain() int    { return 6 * 2 * 2 * mainBlock }
func enumNil() int     { return 3 * nHook * nHook * numPreds * nCons * nPos }
func enumLacking() int { return 6 * 3 * 2 * 2 * numBehaviours * 2 }

var plain = caseSpec{payload: "n"}

func place(c caseSpec, pos int) []caseSpec {
	switch pos {
	case 0:
		return []caseSpec{c}
	case 1:
		return []caseSpec{c, plain, plain}
	case 2:
		return []caseSpec{plain, c, plain}
	}
	return []caseSpec{plain, plain, c}
}

// enumSpec decodes enumeration index i; ok is false for combinations that normalise away
// (they are counted as skipped, not evaluated twice).
func enumSpec(i int) (ls listSpec, ok bool) {
	if i < enumMain() {
		blk := i / mainBlock
		r := i % mainBlock
		helper := blk / 4
		shape := (blk / 2) % 2
		th := blk%2 == 1
		ls.enc, ls.dir, ls.shape, ls.typeHelper = helper/2, helper%2, shape, int(b2u(th))
		if th && ls.dir == dirMarshal {
			return ls, false // marshal helpers take no TypeHelper
		}
		c := caseSpec{payload: "x"}
		c.beh = r % nBeh
		r /= nBeh
		c.before = r % nHook
		r /= nHook
		c.after = r % nHook
		r /= nHook
		c.pred = r % numPreds
		r /= numPreds
		c.constraint = r % nCons
		r /= nCons
		pos := r
		if c.beh == bPanicAfterSet && ls.dir == dirMarshal {
			return ls, false
		}
		if c.isPanic() && (c.pred == pSuffixMet || c.pred == pExactMet) {
			return ls, false
		}
		ls.cases = place(c, pos)
		return ls, true
	}
	i -= enumMain()
	if i < enumNil() {
		r := i
		c := caseSpec{payload: "x", beh: bNilReceiver}
		enc := r % 3
		r /= 3
		c.before = r % nHook
		r /= nHook
		c.after = r % nHook
		r /= nHook
		c.pred = r % numPreds
		r /= numPreds
		c.constraint = r % nCons
		r /= nCons
		if c.pred == pSuffixMet || c.pred == pExactMet || c.before == hAbsent {
			return ls, false
		}
		ls.enc, ls.dir, ls.shape = enc, dirMarshal, shP
		ls.cases = place(c, r)
		return ls, true
	}
	i -= enumNil()
	if i >= enumLacking()+enumNilValue() {
		return extraSpec(i - enumLacking() - enumNilValue())
	}
	if i >= enumLacking() {
		r := i - enumLacking()
		c := caseSpec{payload: "x", nilValue: true}
		ls.typeHelper = r % 2
		r /= 2
		enc := r % 3
		r /= 3
		c.beh = r % nBeh
		r /= nBeh
		c.pred = r % numPreds
		r /= numPreds
		c.constraint = r % nCons
		r /= nCons
		if c.isPanic() && (c.pred == pSuffixMet || c.pred == pExactMet) {
			return ls, false
		}
		ls.enc, ls.dir, ls.shape = enc, dirUnmarshal, shP
		ls.cases = place(c, r)
		return ls, true
	}
	// lacking interface: helper x {OnlyM, OnlyU, None} x env x {1, 3 cases} x behaviour of the
	// first case x {some case applicable, every case restricted to the other direction}
	r := i
	allOther := r%2 == 1
	r /= 2
	beh := r % numBehaviours
	r /= numBehaviours
	long := r%2 == 1
	r /= 2
	ls.goexit = r%2 == 1
	r /= 2
	ls.shape = shOnlyM + r%3
	r /= 3
	ls.enc, ls.dir = r/2, r%2
	c := caseSpec{payload: "x", beh: beh}
	if long {
		ls.cases = []caseSpec{c, plain, {payload: "y", constraint: 1 + ls.dir}}
	} else {
		ls.cases = []caseSpec{c}
	}
	if allOther {
		// the type is checked on the first case whatever its constraint (anchor: "interface
		// check on first case"): a non-empty list for a type lacking the interface is
		// reported even when every case is restricted to the other direction
		for k := range ls.cases {
			ls.cases[k].constraint = 2 - ls.dir
		}
	}
	normalise(&ls)
	return ls, true
}

func classOf(ls listSpec, l *listRun) (nontrivial bool, classes []uint64) {
	for i, c := range ls.cases {
		if !applicable(ls.dir, c.constraint) {
			continue
		}
		fault := c.beh != bRight || c.before >= hError || c.after >= hError || c.pred != pNone
		if !fault {
			continue
		}
		nontrivial = true
		pos := 0
		switch {
		case len(ls.cases) == 1:
		case i == 0:
			pos = 1
		case i == len(ls.cases)-1:
			pos = 3
		default:
			pos = 2
		}
		h := core.NewHash()
		verdict := 0
		if l.failures[i] > 0 {
			verdict = 1
		}
		h.Add(uint64(ls.enc*2+ls.dir)<<40 | uint64(ls.shape)<<32 | uint64(pos)<<28 | uint64(c.constraint)<<24 | uint64(c.beh)<<16 | uint64(c.before)<<12 | uint64(c.after)<<8 | uint64(c.pred)<<4 | uint64(verdict)<<1 | uint64(ls.typeHelper)<<50 | b2u(c.adjust)<<46 | uint64(c.wrongKind)<<52 | b2u(c.wildcard)<<47 | b2u(c.nilExpect)<<48 | b2u(c.other)<<49 | b2u(c.emptyData)<<55 | b2u(c.nilValue)<<44 | b2u(c.nilIface)<<45 | b2u(c.nilData)<<56 | b2u(c.adjustPred)<<57 | b2u(c.adjustAfter)<<59 | b2u(c.beforeSetsAfter)<<60 | b2u(len(c.payload) > 1000)<<58)
		classes = append(classes, uint64(h))
	}
	if !ls.hasInterface() && len(ls.cases) > 0 {
		nontrivial = true
		h := core.NewHash()
		h.Add(0xfa11<<48 | uint64(ls.enc*2+ls.dir)<<8 | uint64(ls.shape)<<4 | b2u(ls.goexit))
		classes = append(classes, uint64(h))
	}
	return
}

func b2u(b bool) uint64 {
	if b {
		return 1
	}
	return 0
}

func probes(res *core.Result, ls listSpec, l *listRun) {
	if ls.goexit {
		res.Probes.Inc("goexit_env")
	}
	if ls.shape == shPval {
		res.Probes.Inc("pointer_receiver_value_type")
	}
	if ls.shape == shDoc && ls.hasInterface() && len(ls.cases) > 0 {
		res.Probes.Inc("interface_field_holding_a_map")
	}
	if ls.shape == shMemo && len(ls.cases) > 0 {
		res.Probes.Inc("memoising_stringer")
	}
	if ls.shape >= shTextOnly && ls.shape <= shJSONOnly && len(ls.cases) > 0 {
		res.Probes.Inc("single_encoding_type")
	}
	if !ls.hasInterface() {
		res.Probes.Inc("lacking_interface")
		anyApp := false
		for _, c := range ls.cases {
			anyApp = anyApp || applicable(ls.dir, c.constraint)
		}
		if !anyApp && len(ls.cases) > 0 {
			res.Probes.Inc("lacking_interface_all_inapplicable")
		}
		if l.failNows > 0 {
			res.Probes.Inc("failnow_called")
		}
	}
	for _, e := range l.events {
		if len(e.what) > 10 && e.what[:10] == "typehelper" {
			res.Probes.Inc("typehelper_used")
			break
		}
	}
	ran := make([]bool, len(ls.cases))
	for _, e := range l.events {
		if (e.what == "marshal" || e.what == "unmarshal") && e.idx >= 0 && e.idx < len(ran) {
			ran[e.idx] = true
		}
	}
	for i, c := range ls.cases {
		app := applicable(ls.dir, c.constraint)
		if !app {
			if c.beh != bRight || c.before >= hError || c.after >= hError {
				res.Probes.Inc("inapplicable_faulty")
			}
			continue
		}
		if !ls.hasInterface() {
			continue
		}
		if c.before == hPanic || c.after == hPanic {
			res.Probes.Inc("panic_recovered_hook")
			res.Faults.Inc("hook_panic")
		}
		if c.before == hPanicBadError || c.after == hPanicBadError {
			res.Probes.Inc("panic_value_with_uncallable_error_method")
			res.Faults.Inc("hook_panic_uncallable_error")
		}
		if i == 0 && c.nilIface {
			res.Probes.Inc("nil_interface_value_first_case")
			res.Faults.Inc("first_case_nil_interface_value")
		}
		if c.before == hError || c.after == hError {
			res.Faults.Inc("hook_error")
		}
		if c.nilIface && c.before == hPass {
			res.Probes.Inc("nil_interface_value")
			res.Faults.Inc("call_on_nil_interface_value")
		}
		if c.beh == bNilReceiver && c.before == hPass {
			// the call happens (right after the Before hook) but panics before it can announce itself
			res.Probes.Inc("nil_receiver")
			res.Faults.Inc("call_nil_receiver_panic")
		}
		if !ran[i] {
			continue
		}
		switch c.beh {
		case bPanicString, bPanicError, bPanicAfterSet:
			res.Probes.Inc("panic_recovered_call")
			res.Faults.Inc("call_panic")
		case bErrorWithData:
			res.Probes.Inc("error_with_data")
			res.Faults.Inc("call_error_with_data")
		case bError:
			res.Faults.Inc("call_error")
		case bWrong:
			res.Faults.Inc("call_wrong_result")
			if c.pred == pNone && c.before < hError && c.after < hError {
				res.Probes.Inc("wrong_data_only")
			}
		}
		if c.nilValue {
			res.Probes.Inc("nil_value_unmarshal")
		}
		if c.adjust {
			res.Probes.Inc("before_hook_adjusts_case")
		}
		if c.wildcard {
			res.Probes.Inc("asymmetric_typehelper_wildcard")
		}
		if ls.typeHelper == 3 {
			res.Probes.Inc("cloning_typehelper")
		}
		if c.beh == bErrorEmptied || c.beh == bEmptied {
			res.Probes.Inc("emptied_not_nil")
		}
		if c.nilExpect {
			res.Probes.Inc("listed_nil_value")
		}
		if c.other {
			res.Probes.Inc("second_concrete_type")
		}
		if c.emptyData {
			res.Probes.Inc("listed_empty_data")
		}
		if c.nilData {
			res.Probes.Inc("listed_nil_input")
		}
		if c.adjustPred {
			res.Probes.Inc("before_hook_installs_or_clears_predicate")
		}
		if c.adjustAfter {
			res.Probes.Inc("after_hook_adjusts_expectation")
		}
		if c.beforeSetsAfter {
			res.Probes.Inc("before_hook_installs_after_hook")
		}
		if c.pred == pCustomFailNow {
			res.Probes.Inc("predicate_fails_through_failnow")
		}
		if i >= 64 {
			res.Probes.Inc("case_index_ge_64")
		}
		if ls.shape == shPMap && (c.beh == bErrorEmptied || c.beh == bEmptied) {
			res.Probes.Inc("pointer_to_emptied_map")
		}
		if len(c.payload) > 1000 {
			res.Probes.Inc("big_payload")
		}
		if c.beh == bReturnBadError {
			res.Probes.Inc("returned_error_with_uncallable_error_method")
			res.Faults.Inc("call_error_uncallable")
		}
		if c.beh == bPanicBadError {
			res.Probes.Inc("panic_value_with_uncallable_error_method")
			res.Faults.Inc("call_panic_uncallable_error")
		}
		if ls.shape == shDoc && c.beh == bWrong && c.wrongKind == wDynType && ls.dir == dirUnmarshal {
			res.Probes.Inc("other_dynamic_type_behind_interface")
		}
		if c.beh == bWrong && c.wrongKind == wJSONEquivalent {
			res.Probes.Inc("json_equivalent_wrong_data")
		}
		if ls.shape == shStr && c.beh == bWrong && c.wrongKind == wUpper && ls.dir == dirUnmarshal {
			res.Probes.Inc("lenient_equal_method")
		}
		if c.pred == pMatchInvalid {
			res.Probes.Inc("invalid_regexp")
			res.Faults.Inc("predicate_invalid_regexp")
		}
	}
}

func finish(res *core.Result, ls listSpec, o core.RunOpts, extraTrace []string) *core.Result {
	l, escaped := execList(ls, o.KeepTrace)
	h := core.NewHash()
	h.Add(uint64(ls.enc*2+ls.dir)<<8 | uint64(ls.shape)<<4 | b2u(ls.goexit)<<1 | uint64(ls.typeHelper)<<2 | uint64(ls.prelude)<<16 | b2u(ls.narrow)<<20 | b2u(ls.nilErr)<<21)
	for _, c := range ls.cases {
		h.Add(uint64(c.constraint)<<24 | uint64(c.beh)<<16 | uint64(c.before)<<12 | uint64(c.after)<<8 | uint64(c.pred) | b2u(c.nilValue)<<28 | b2u(c.nilIface)<<29 | b2u(c.adjust)<<30 | uint64(c.wrongKind)<<32 | b2u(c.wildcard)<<31 | b2u(c.nilExpect)<<36 | b2u(c.other)<<37 | b2u(c.emptyData)<<38 | b2u(c.nilData)<<39 | b2u(c.adjustPred)<<40 | b2u(c.adjustAfter)<<42 | b2u(c.beforeSetsAfter)<<43 | b2u(len(c.payload) > 1000)<<41)
	}
	for _, e := range l.events {
		h.AddString(e.what)
		h.Add(uint64(int64(e.idx)))
	}
	h.Add(res.TraceHash) // cumulative over the lists of one run
	res.TraceHash = uint64(h)
	res.Steps += int64(len(ls.cases))
	res.Extra.Inc("helper_invocations")
	res.Extra.Add("cases", int64(len(ls.cases)))
	probes(res, ls, l)
	v := judge(ls, l, escaped)
	if o.KeepTrace || v != nil {
		if v != nil && !o.KeepTrace {
			// re-run to collect the messages for the report
			l2, _ := execList(ls, true)
			l.msgs = l2.msgs
		}
		res.Trace = append(res.Trace, extraTrace...)
		res.Trace = append(res.Trace, describe(ls)...)
		res.Trace = append(res.Trace, describeRun(l)...)
	}
	if v != nil {
		if o.IsKnown != nil && o.IsKnown(v) {
			res.Known = append(res.Known, v)
		} else if res.Violation == nil {
			res.Violation = v
		}
	}
	nt, cls := classOf(ls, l)
	if nt {
		res.NonTrivial = true
	}
	for _, c := range cls {
		res.Class ^= c // a list's class is the set of its tuples; the worker also gets them one by one
		res.Classes = append(res.Classes, c)
	}
	return res
}

// RunEnum implements core.Property.
func (Prop) RunEnum(i int, o core.RunOpts) *core.Result {
	res := core.NewResult()
	ls, ok := enumSpec(i)
	if !ok {
		res.Extra.Inc("enumeration_slots_not_scriptable")
		res.Skipped = true
		return res
	}
	res.Strategy = "enumerated"
	return finish(res, ls, o, []string{fmt.Sprintf("enumeration index %d", i)})
}

// bigPayload is 70 400 bytes long.
var bigPayload = strings.Repeat("0123456789abcdef", 4400)

var shapeWeights = [...]int{shV, shV, shV, shP, shP, shP, shOnlyM, shOnlyU, shNone, shIface, shIface, shPV, shPV, shStr, shStr, shBytes, shBytes, shMap, shMap, shNum, shNum, shByte, shPval, shPval, shDoc, shDoc, shMemo, shMemo, shTextOnly, shBinOnly, shJSONOnly, shPMap, shPMap}

func genCase(t *core.Tape) caseSpec {
	c := caseSpec{}
	if t.Bool(1, 3) {
		c.constraint = 1 + t.Choose(2)
	}
	if t.Bool(1, 2) {
		c.beh = t.Choose(numBehaviours)
	}
	if t.Bool(1, 3) {
		c.before = t.Choose(numHooks)
	}
	if t.Bool(1, 3) {
		c.after = t.Choose(numHooks)
	}
	if t.Bool(1, 2) {
		c.pred = t.Choose(numPreds)
	}
	c.nilValue = t.Bool(1, 8)
	c.nilIface = t.Bool(1, 6)
	c.adjust = t.Bool(1, 8)
	c.wrongKind = t.Choose(numWrong)
	c.wildcard = t.Bool(1, 4)
	c.nilExpect = t.Bool(1, 6)
	c.other = t.Bool(1, 3)
	c.emptyData = t.Bool(1, 8)
	c.nilData = t.Bool(1, 8)
	c.adjustPred = t.Bool(1, 2)
	c.adjustAfter = t.Bool(1, 10)
	c.beforeSetsAfter = t.Bool(1, 10)
	c.payload = [...]string{"p", "", "payload with spaces", "{\"k\":1}", "\x00\xff", "~", "line\n", "100% %s", "caf\xe9 \xff\xff"}[t.Choose(9)]
	if t.Bool(1, 48) {
		c.payload = bigPayload // well beyond any buffer or chunk size a comparison might use
	}
	c.predDrawn = c.pred
	return c
}

// Run implements core.Property: one seeded list (plus singleton re-runs of its cases).
func (Prop) Run(t *core.Tape, o core.RunOpts) *core.Result {
	res := core.NewResult()
	res.Strategy = "seeded"
	ls := listSpec{}
	h := t.Choose(6)
	ls.enc, ls.dir = h/2, h%2
	ls.shape = shapeWeights[t.Choose(len(shapeWeights))]
	ls.goexit = t.Bool(1, 3)
	if ls.dir == dirUnmarshal && t.Bool(1, 3) {
		ls.typeHelper = 1 + t.Choose(3)
	}
	n := t.Choose(13)
	if t.Bool(1, 40) {
		n = 13 + t.Choose(68) // once in a while a long list, now and then beyond 64 cases (the width of a machine word)
		res.Probes.Inc("long_list")
	}
	for i := 0; i < n; i++ {
		ls.cases = append(ls.cases, genCase(t))
	}
	normalise(&ls)
	if !ls.hasInterface() && len(ls.cases) == 0 {
		// an empty list says nothing about the type
		ls.cases = []caseSpec{genCase(t)}
		normalise(&ls)
	}
	singles := t.Bool(1, 4)
	// drawn last, so that every list drawn before these two existed is still the same list
	if t.Bool(1, 4) {
		ls.prelude = 1 + t.Choose(4)
		res.Probes.Inc("prelude_other_helper_same_type")
	}
	if ls.shape == shIface && t.Bool(1, 3) {
		ls.narrow = true
		res.Probes.Inc("narrow_interface_typed_T")
	}
	if ls.shape == shIface && t.Bool(1, 4) {
		for i := range ls.cases {
			if c := &ls.cases[i]; i > 0 && c.nilIface && c.predDrawn != pNone && !c.adjustPred {
				c.pred = c.predDrawn
				ls.nilErr = true
			}
		}
		if ls.nilErr {
			res.Probes.Inc("nil_interface_value_with_expected_error")
		}
	}
	finish(res, ls, o, nil)
	if res.Violation != nil || !ls.hasInterface() || !singles {
		return res
	}
	// per case: every case judged again as a singleton list (no state may leak between cases)
	for i := range ls.cases {
		one := ls
		one.cases = []caseSpec{ls.cases[i]}
		one.nilErr = false // a list of one: normalise settles what a nil interface value means there
		normalise(&one)
		finish(res, one, o, []string{fmt.Sprintf("singleton re-run of case %d", i)})
		res.Extra.Inc("singleton_reruns")
		if res.Violation != nil {
			break
		}
	}
	return res
}
