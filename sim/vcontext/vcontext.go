// Package vcontext is the drop-in stand-in for package context inside a simulated run:
// Done() is a simulated channel, deadlines run on the simulated monotonic clock.
package vcontext

import (
	"context"
	"time"

	"go.lstv.dev/util/internal/vsim/sched"
	"go.lstv.dev/util/internal/vsim/vchan"
)

// Context mirrors context.Context with a simulated Done channel.
type Context interface {
	Deadline() (deadline time.Time, ok bool)
	Done() *vchan.Chan[struct{}]
	Err() error
	Value(key interface{}) interface{}
}

// CancelFunc is context.CancelFunc.
type CancelFunc func()

// Errors are the real ones, so errors.Is keeps working.
var (
	Canceled         = context.Canceled
	DeadlineExceeded = context.DeadlineExceeded
)

type ctx struct {
	parent   Context
	done     *vchan.Chan[struct{}]
	err      error
	children []*ctx
	deadline time.Time
	hasDl    bool
	key, val interface{}
	cause    error
}

type background struct{}

func (background) Deadline() (time.Time, bool)   { return time.Time{}, false }
func (background) Done() *vchan.Chan[struct{}]   { return nil } // a nil channel blocks forever, as in Go
func (background) Err() error                    { return nil }
func (background) Value(interface{}) interface{} { return nil }

// Background is context.Background.
func Background() Context { return background{} }

// TODO is context.TODO.
func TODO() Context { return background{} }

func (c *ctx) Deadline() (time.Time, bool) {
	if c.hasDl {
		return c.deadline, true
	}
	return c.parent.Deadline()
}
func (c *ctx) Done() *vchan.Chan[struct{}] { return c.done }
func (c *ctx) Err() error {
	if s := sched.Cur; s != nil && !s.Aborted() {
		s.Yield(sched.KOther, 0) // reading the state of a context is a preemption point
	}
	return c.err
}
func (c *ctx) Value(k interface{}) interface{} {
	if c.key != nil && c.key == k {
		return c.val
	}
	return c.parent.Value(k)
}

func (c *ctx) cancel(err error, fromTimer bool) { c.cancelCause(err, nil, fromTimer) }

func (c *ctx) cancelCause(err, cause error, fromTimer bool) {
	if c.err != nil {
		return
	}
	c.err = err
	if cause == nil {
		cause = err
	}
	c.cause = cause
	if fromTimer {
		c.done.CloseFromTimer()
	} else {
		c.done.Close()
	}
	for _, ch := range c.children {
		ch.cancelCause(err, cause, fromTimer)
	}
}

func newCtx(parent Context) *ctx {
	c := &ctx{parent: parent, done: vchan.Make[struct{}]()}
	if p, ok := parent.(*ctx); ok {
		if p.err != nil {
			c.err, c.cause = p.err, p.cause
			c.done.CloseFromTimer()
		} else {
			p.children = append(p.children, c)
		}
	}
	return c
}

// WithCancel is context.WithCancel.
func WithCancel(parent Context) (Context, CancelFunc) {
	c := newCtx(parent)
	return c, func() { c.cancel(Canceled, false) }
}

// WithTimeout is context.WithTimeout on the simulated clock.
func WithTimeout(parent Context, d time.Duration) (Context, CancelFunc) {
	c := newCtx(parent)
	c.hasDl = true
	if s := sched.Cur; s != nil && !s.Aborted() {
		c.deadline = time.Unix(0, s.NowNs+int64(d)).UTC()
		if d <= 0 {
			c.cancel(DeadlineExceeded, true)
		} else {
			s.AddTimer(int64(d), func() { c.cancel(DeadlineExceeded, true) })
		}
	}
	return c, func() { c.cancel(Canceled, false) }
}

// WithDeadline is context.WithDeadline on the simulated wall clock.
func WithDeadline(parent Context, t time.Time) (Context, CancelFunc) {
	d := time.Duration(0)
	if s := sched.Cur; s != nil {
		d = t.Sub(time.Unix(0, s.NowNs))
	}
	return WithTimeout(parent, d)
}

// WithValue is context.WithValue.
func WithValue(parent Context, key, val interface{}) Context {
	c := newCtx(parent)
	c.key, c.val = key, val
	c.done = parent.Done()
	return c
}

// CancelCauseFunc is context.CancelCauseFunc.
type CancelCauseFunc func(cause error)

// WithCancelCause is context.WithCancelCause.
func WithCancelCause(parent Context) (Context, CancelCauseFunc) {
	c := newCtx(parent)
	return c, func(cause error) { c.cancelCause(Canceled, cause, false) }
}

// WithTimeoutCause is context.WithTimeoutCause.
func WithTimeoutCause(parent Context, d time.Duration, cause error) (Context, CancelFunc) {
	c := newCtx(parent)
	c.hasDl = true
	if s := sched.Cur; s != nil && !s.Aborted() {
		c.deadline = time.Unix(0, s.NowNs+int64(d)).UTC()
		if d <= 0 {
			c.cancelCause(DeadlineExceeded, cause, true)
		} else {
			s.AddTimer(int64(d), func() { c.cancelCause(DeadlineExceeded, cause, true) })
		}
	}
	return c, func() { c.cancel(Canceled, false) }
}

// WithDeadlineCause is context.WithDeadlineCause.
func WithDeadlineCause(parent Context, t time.Time, cause error) (Context, CancelFunc) {
	d := time.Duration(0)
	if s := sched.Cur; s != nil {
		d = t.Sub(time.Unix(0, s.NowNs))
	}
	return WithTimeoutCause(parent, d, cause)
}

// Cause is context.Cause.
func Cause(c Context) error {
	for {
		switch x := c.(type) {
		case *ctx:
			if x.key != nil && x.done == x.parent.Done() {
				c = x.parent // a WithValue node has no state of its own
				continue
			}
			return x.cause
		case withoutCancel:
			return nil
		default:
			return nil
		}
	}
}

type withoutCancel struct{ parent Context }

func (withoutCancel) Deadline() (time.Time, bool)       { return time.Time{}, false }
func (withoutCancel) Done() *vchan.Chan[struct{}]       { return nil }
func (withoutCancel) Err() error                        { return nil }
func (w withoutCancel) Value(k interface{}) interface{} { return w.parent.Value(k) }

// WithoutCancel is context.WithoutCancel.
func WithoutCancel(parent Context) Context { return withoutCancel{parent} }

// AfterFunc is context.AfterFunc: f runs on its own simulated goroutine once ctx is done.
func AfterFunc(c Context, f func()) (stop func() bool) {
	stopped, started := false, false
	run := func() {
		if !stopped && !started {
			started = true
			f()
		}
	}
	if d := c.Done(); d != nil {
		sched.Go(func() {
			d.Recv()
			run()
		})
	}
	return func() bool {
		was := !stopped && !started
		stopped = true
		return was
	}
}

// Pick builds the context a workload hands to a context-taking ID source: kind 0 never ends,
// 1 is cancelled already, 2..: expires after a short simulated time.
func Pick(kind int) Context {
	switch kind % 4 {
	case 0:
		return Background()
	case 1:
		c, cancel := WithCancel(Background())
		cancel()
		return c
	case 2:
		c, _ := WithTimeout(Background(), time.Microsecond)
		return c
	}
	c, _ := WithTimeout(Background(), 2*time.Millisecond)
	return c
}
