// Package c19 simulates many caller threads drawing random UUIDs from the import-substituted
// uu package under a seeded scheduler, entropy faults and a simulated clock.
package c19

import (
	"fmt"
	"math/rand"
	"runtime/debug"
	"strings"

	"go.lstv.dev/util/internal/vsim/core"
	"go.lstv.dev/util/internal/vsim/sched"
	"go.lstv.dev/util/internal/vsim/vatomic"
	"go.lstv.dev/util/internal/vsim/vcrand"
	"go.lstv.dev/util/internal/vsim/vrace"
	"go.lstv.dev/util/internal/vsim/vrand"
	"go.lstv.dev/util/internal/vsim/vtime"
	"go.lstv.dev/util/uu"
)

// Prop is the C19 check.
type Prop struct{}

// ID implements core.Property.
func (Prop) ID() string { return "C19" }

// Budget implements core.Property: simulated runs per batch.
func (Prop) Budget(tier string) int {
	if tier == "thorough" {
		return 16000000
	}
	return 160000
}

// Describe implements core.Property.
func (Prop) Describe() core.Description {
	return core.Description{
		Level: "exploration",
		Rule: "one run = N simulated caller threads (N from {1,2,3,4,8,16,64}, staggered arrivals) x m calls to the real uu.RandomID over import-substituted sync/math/rand/time, " +
			"under one tape-chosen scheduling strategy, entropy fault mode and clock behaviour; invariants I1 overlap, I2 happens-before on the generator, I5 happens-before on instrumented package-level variables, I3 layout, I4 no duplicate (uniform entropy), E1 progress, E2 bit coverage. " +
			"A run is non-trivial if at least one task blocked on a simulated lock; distinct = distinct hashes of the (task, yield-point kind, object) sequence among non-trivial runs",
		Assumptions: []string{
			"vsync.Mutex implements Go's documented mutex semantics (mutual exclusion, unlock happens-before later lock, barging allowed)",
			"SimSource is a faithful abstraction of a rand.Source that is not safe for concurrent use: overlap inside its read-modify-write or an access unordered by happens-before is a data race in the real program",
			"code between two yield points runs atomically; data races on memory other than the generator are visible only to the supplementary -race stage of the thorough tier",
			"sampled schedules, not an enumeration: a clean batch is evidence, not proof",
		},
		Real: []string{"uu.RandomID", "uu.twoRandomUint63", "uu.ID.Version", "uu.ID.Variant", "math/rand.Rand (wrapper)"},
		Stub: []string{"sync.Mutex/RWMutex/Once/WaitGroup/Cond/Pool/Map -> vsim/vsync", "sync/atomic -> vsim/vatomic", "go statements, channels, select -> vsim/sched + vsim/vchan", "plain package-level variables: vsim/vrace hooks (happens-before race check)", "math/rand Source and top-level functions -> vsim/vrand.SimSource", "time.Now/Sleep -> vsim/vtime", "Go scheduler -> vsim/sched (seeded baton passing)"},
		Notes: map[string]string{
			"static_scan": ScanNote,
		},
		RequiredProbesQuick: quickProbes(),
		RequiredProbes:      thoroughProbes(),
	}
}

// The lock probes are demanded only of trees that take locks at all ("x if y": x must be
// non-zero when y is): a lock-free implementation (crypto/rand, say) is legitimate and must
// not trip the dead-probe guard.
func quickProbes() []string {
	return []string{"lock_contended if lock_held_across_yield", "waiters_ge_2 if lock_blocked", "ids_ge_128_uniform", "long_lived_run", "crowd_run"}
}

func thoroughProbes() []string {
	return []string{"holder_starved if lock_blocked", "all_other_tasks_blocked if lock_blocked", "preempt_in_rmw_fault if lock_held_across_yield"}
}

// EnumSize implements core.Property: nothing is enumerated.
func (Prop) EnumSize(tier string) int { return 0 }

// RunEnum implements core.Property.
func (Prop) RunEnum(i int, o core.RunOpts) *core.Result { return nil }

// Prelude implements core.Property: refuses trees the simulator cannot schedule.
func (Prop) Prelude(o core.RunOpts) *core.Result {
	r := core.NewResult()
	if ScanUnsupported != "" {
		r.Infra = "the uu package of this tree synchronises in a way the simulator cannot schedule: " + ScanUnsupported
	}
	return r
}

var taskCounts = [...]int{1, 2, 2, 2, 3, 3, 4, 4, 8, 8, 16, 64}

const maxControlCalls = 64

// Run implements core.Property.
var errCallback = fmt.Errorf("vsim: injected callback panic")

func (Prop) Run(t *core.Tape, o core.RunOpts) *core.Result {
	res := core.NewResult()
	// ---- swarm configuration, all from the tape
	n := taskCounts[t.Choose(len(taskCounts))]
	maxCalls := 50
	if n >= 16 {
		maxCalls = 12
	}
	if n >= 64 {
		maxCalls = 6
	}
	calls := 1 + t.Choose(maxCalls)
	if t.Bool(3, 4) && calls > 6 {
		calls = 1 + calls%6 // favour short runs
	}
	strategy := sched.Strategy(t.Choose(int(sched.NumStrategies)))
	rareStall := false
	entropy := 0
	if t.Bool(1, 3) {
		entropy = t.Choose(vrand.NumEntropy)
	}
	clock := sched.ClockMode(0)
	if t.Bool(1, 3) {
		clock = sched.ClockMode(t.Choose(int(sched.NumClockModes)))
	}
	// a rare "long-lived process" shape: thousands of calls in one run reach behaviour that
	// only starts after N IDs (periodic re-seeding, counters, caches filling up)
	if t.Bool(1, 400) {
		n = [...]int{1, 2, 3, 8}[t.Choose(4)]
		calls = (1030 + t.Choose(3200)) / n
		if strategy == sched.SUniform {
			strategy = sched.SSticky90
		}
		res.Probes.Inc("long_lived_run")
		// half of them with more than one caller run under the stalled-node fault (windows that
		// open once per few hundred calls and need two callers inside)
		if n > 1 && t.Bool(1, 2) {
			rareStall = true
			res.Probes.Inc("long_lived_stall_run")
		}
	}
	// a rare "crowd": more callers at once than the 64 the property's quantifier names (queues,
	// semaphores and tables sized for "more than enough" callers overflow here)
	if t.Bool(1, 300) {
		n = 130 + t.Choose(63)
		calls = 1 + t.Choose(2)
		res.Probes.Inc("crowd_run")
	}
	// and a very rare "marathon": one or two callers, more than 2^17 IDs (2^20 in the thorough
	// tier, once in a while): thresholds that are round numbers of calls
	if t.Bool(1, 16000) {
		n = 1 + t.Choose(2)
		total := 131100 + t.Choose(9000)
		if o.Tier == "thorough" && t.Bool(1, 8) {
			total = 1048600 + t.Choose(9000)
		}
		calls = total / n
		strategy = sched.SRunToBlock
		entropy = vrand.EUniform
		res.Probes.Inc("marathon_run")
		// half of the two-caller marathons run under the stalled-node fault: the first caller to
		// reach a preemption point that is reached a few times per run at most is held there
		// until the other one comes to the same point (windows that open once per N calls)
		if n == 2 && t.Bool(1, 2) {
			rareStall = true
			res.Probes.Inc("marathon_stall_run")
		}
	}
	budget := int64(n*calls)*1500 + int64(n*n*calls)*64 + 20000 // only there to end livelocks; the quadratic term is for designs that wake every waiter on every release
	salt := t.Word()
	// what the code under test is told about the machine
	procs := [...]int{4, 1, 2, 8, 16, 64}[t.Choose(6)]
	arrive := make([]int64, n)
	staggered := t.Bool(1, 4)
	for i := range arrive {
		if staggered && i > 0 {
			arrive[i] = int64(t.Choose(40))
		}
	}
	// a dedicated "big uniform" shape reaches the bit-coverage oracle
	big := t.Bool(1, 50)
	if big {
		entropy = vrand.EUniform
		if n*calls < 130 {
			calls = 130/n + 1
		}
	}
	sched.Procs = procs
	res.Extra.Inc(fmt.Sprintf("reported_gomaxprocs_%02d", procs))
	sched.ClearPending()
	vcrand.ResetPlain()
	resetPackages() // every run starts from the package's initial state
	s := sched.New(t, sched.Config{Strategy: strategy, Clock: clock, MaxSteps: budget, Keep: o.KeepTrace, RareStall: rareStall})
	s.Salt = salt
	s.Entropy = entropy
	vrand.I2Enabled = ScanI2
	vrace.Enabled = ScanI2
	vrace.Names = ScanVarNames
	vrace.Accesses = 0
	vatomic.Ops = 0
	vrand.Draws = 0
	vtime.Reads = 0
	res.Strategy = strategy.String()
	res.Extra.Inc("entropy_mode_" + vrand.EntropyNames[entropy])
	res.Extra.Inc("clock_mode_" + clock.String())
	res.Extra.Inc(fmt.Sprintf("tasks_%02d", n))
	s.Logf("config tasks=%d calls=%d strategy=%s entropy=%s clock=%s staggered=%v", n, calls, strategy, vrand.EntropyNames[entropy], clock, staggered)

	seen := make(map[uu.ID]int, n*calls)
	var or, and, orRest, andRest [2]uint64
	and = [2]uint64{^uint64(0), ^uint64(0)}
	andRest = and
	firsts, restCalls := 0, 0
	total := 0
	returned := 0
	callbackPanicked := false
	controlCalls := 0 // configuration and maintenance calls are rare events: at most maxControlCalls per run

	// no garbage collection while a run is in progress: the address-based race hooks rely
	// on no heap address being reused within a run
	gcOff := debug.SetGCPercent(-1)
	defer debug.SetGCPercent(gcOff)
	// a callback handed to the library may be kept and run later, inside any call (a seed hook
	// run by the first RandomID): the panic injected into it surfaces there, in the caller that
	// triggered it, exactly as the harness's request handler would see it. That call returns no ID.
	guarded := func(f func() []uu.ID) (ids []uu.ID) {
		defer func() {
			if r := recover(); r != nil {
				if r != errCallback {
					panic(r)
				}
				callbackPanicked = true
				res.Faults.Inc("callback_panic_surfaced_in_a_later_call")
				ids = nil
			}
		}()
		return f()
	}
	s.Run(n, arrive, func(task int) {
		for c := 0; c < calls && !s.Aborted(); c++ {
			s.Yield(sched.KPreCall, 0)
			if s.Aborted() {
				return
			}
			// an API of the tree under test that lends the generator to a callback: the callback
			// draws a few values and, one time in three, panics (the harness recovers, as a
			// request handler would); whatever the library does then, the callers that follow
			// must still be serialised
			if len(ExtraCallbacks) > 0 && t.Bool(1, 6) {
				k := t.Choose(len(ExtraCallbacks))
				draws := 1 + t.Choose(3)
				boom := t.Bool(1, 3)
				res.Probes.Inc("extra_callback_api_called")
				func() {
					defer func() {
						if r := recover(); r != nil {
							if r != errCallback {
								panic(r)
							}
							callbackPanicked = true
							res.Faults.Inc("callback_panic_injected")
						}
					}()
					ExtraCallbacks[k](func(r *rand.Rand) {
						for d := 0; d < draws && !s.Aborted(); d++ {
							r.Int63()
						}
						if boom && !s.Aborted() {
							panic(errCallback)
						}
					})
				}()
				if s.Aborted() {
					return
				}
			}
			// configuration and maintenance calls a tree has added (Reseed(), SetLanes(n),
			// StartReseeding(every)): made by the callers, between their ID calls, while the others
			// generate. What such a call does with an odd argument is its own business: a panic
			// out of it is not held against the property.
			if len(ExtraControls) > 0 && controlCalls < maxControlCalls && t.Bool(1, 6) {
				controlCalls++
				k := t.Choose(len(ExtraControls))
				a := [...]int{1, 2, 3, 4, 0, 5, 8, 16}[t.Choose(8)]
				res.Probes.Inc("extra_control_called")
				func() {
					defer func() {
						if r := recover(); r != nil {
							res.Probes.Inc("extra_control_panicked")
						}
					}()
					ExtraControls[k](a)
				}()
				if s.Aborted() {
					return
				}
			}
			// mostly RandomID; sometimes another exported function of the package that hands
			// out IDs, if the tree under test has one
			var ids []uu.ID
			if len(ExtraSources) > 0 && t.Bool(1, 3) {
				k := t.Choose(len(ExtraSources))
				want := 1 + t.Choose(4)
				if t.Bool(1, 4) {
					want = 17 + t.Choose(48) // batch APIs tend to change behaviour above some size
				}
				if t.Bool(1, 64) {
					// ... and again at the sizes where they start to parallelise or to chunk
					big := [...]int{255, 256, 257, 1000, 1023, 1024, 1025, 4095, 4096, 4097, 5000, 8191, 12345}
					want = big[t.Choose(len(big))]
					res.Probes.Inc("extra_id_source_big_batch")
				}
				s.MaxSteps += int64(want) * 200 // a pipeline of goroutines and channels spends tens of steps per ID
				ids = guarded(func() []uu.ID { return ExtraSources[k](want) })
				res.Probes.Inc("extra_id_source_called")
			} else {
				ids = guarded(func() []uu.ID { return []uu.ID{uu.RandomID()} })
			}
			if s.Aborted() {
				return
			}
			returned++
			for idx, id := range ids {
				total++
				// I3 layout: raw words and accessors
				if (id.Higher>>12)&0xf != 4 || id.Lower>>62 != 2 {
					s.Fail("I3-layout", "layout", fmt.Sprintf("t%d call %d returned %016x%016x: version nibble %x (want 4), variant bits %02b (want 10), entropy mode %s", task, c, id.Higher, id.Lower, (id.Higher>>12)&0xf, id.Lower>>62, vrand.EntropyNames[entropy]))
					return
				}
				if id.Version() != 4 || id.Variant() != 1 {
					s.Fail("I3-layout", "accessors", fmt.Sprintf("t%d call %d: ID %016x%016x reports Version()=%d Variant()=%d (want 4 and 1)", task, c, id.Higher, id.Lower, id.Version(), id.Variant()))
					return
				}
				// I4 duplicates: only where every honest draw is distinct by construction
				if entropy == vrand.EUniform && !vrand.SeedsAliased() {
					if prev, dup := seen[id]; dup {
						s.Fail("I4-duplicate", "duplicate", fmt.Sprintf("t%d call %d returned %016x%016x, already returned by t%d earlier in this run (uniform entropy: every honest draw is distinct)", task, c, id.Higher, id.Lower, prev))
						return
					}
					seen[id] = task
				}
				// bit coverage is judged across calls: the first ID of every call in one pair of
				// accumulators, the later IDs of batch calls in another (what the IDs of one batch
				// have in common — an ascending prefix, say — is the batch API's business)
				if idx == 0 {
					or[0] |= id.Higher
					or[1] |= id.Lower
					and[0] &= id.Higher
					and[1] &= id.Lower
					firsts++
				} else {
					orRest[0] |= id.Higher
					orRest[1] |= id.Lower
					andRest[0] &= id.Higher
					andRest[1] &= id.Lower
					if idx == 1 {
						restCalls++
					}
				}
			}
			s.Yield(sched.KPostCall, 0)
		}
	})

	// E1 progress: every started call returned
	if s.Viol == nil && s.Infra == "" && returned != n*calls {
		s.Fail("E1-progress", "progress", fmt.Sprintf("%d of %d calls returned", returned, n*calls))
	}
	// E2 bit coverage
	if s.Viol == nil && s.Infra == "" && entropy == vrand.EUniform && firsts >= 128 {
		res.Probes.Inc("ids_ge_128_uniform")
		// a bit position never seen as 1 is 0 in `or`; never seen as 0 is 1 in `and`
		stuck := [2]uint64{^or[0] | and[0], ^or[1] | and[1]}
		wantStuck := [2]uint64{0xf000, 0xc000000000000000}
		if stuck != wantStuck {
			s.Fail("E2-bit-coverage", "bit-coverage", fmt.Sprintf("over the first IDs of %d calls the constant bit positions are %016x/%016x, expected exactly the six version/variant bits %016x/%016x", firsts, stuck[0], stuck[1], wantStuck[0], wantStuck[1]))
		}
		if s.Viol == nil && restCalls >= 128 {
			stuck = [2]uint64{^orRest[0] | andRest[0], ^orRest[1] | andRest[1]}
			if stuck != wantStuck {
				s.Fail("E2-bit-coverage", "bit-coverage-batches", fmt.Sprintf("over the later IDs of %d batch calls the constant bit positions are %016x/%016x, expected exactly the six version/variant bits %016x/%016x", restCalls, stuck[0], stuck[1], wantStuck[0], wantStuck[1]))
			}
		}
	}
	if s.Viol != nil && callbackPanicked && (s.Viol.Invariant == "E1-stuck" || s.Viol.Invariant == "E1-progress") {
		// a library that does not release its lock when a callback panics blocks everybody
		// afterwards: a liveness defect of its own kind, not a race, a duplicate or a wrong
		// layout; no verdict for this run
		s.Viol = nil
		res.Probes.Inc("no_verdict_stuck_after_callback_panic")
	}
	if s.Viol != nil {
		s.Viol.Property = "C19"
		res.Violation = s.Viol
	}
	res.Infra = s.Infra
	if strings.Contains(res.Infra, "goroutines alive at once") && res.Violation == nil {
		// more goroutines than the simulator models in one run (a parallel batch API asked for
		// a big batch by many callers at once): this run is abandoned, counted, and says
		// nothing; the check as a whole gives up (exit 2) if that happens to more than one run
		// in twenty
		res.Infra = ""
		res.Probes.Inc("no_verdict_goroutine_bound")
	}
	if res.Infra != "" && entropy != vrand.EUniform && res.Violation == nil {
		// a rejection loop that never ends because the injected entropy is stuck is the
		// fault's doing, not the code's and not the harness's: no verdict for this run
		res.Infra = ""
		res.Probes.Inc("no_verdict_budget_exhausted_under_entropy_fault")
	}
	res.TraceHash = s.TraceHash()
	res.Trace = s.Trace
	res.Steps = s.Steps
	res.SimTimeNs = s.MonoNs // simulated monotonic time covered by this run
	res.NonTrivial = s.Contended()
	res.Class = res.TraceHash
	res.Faults.Merge(s.Faults)
	if rareStall {
		res.Faults.Add("stalled_at_rare_site", 0) // listed even where no point of the tree is rare
	}
	res.Probes.Merge(s.Probes)
	if s.Faults["preempt_in_rmw"] > 0 {
		res.Probes.Inc("preempt_in_rmw_fault")
	}
	if entropy != vrand.EUniform {
		res.Faults.Inc("entropy_" + vrand.EntropyNames[entropy])
	}
	if staggered {
		res.Faults.Inc("staggered_arrivals")
	}
	res.Extra.Add("random_id_calls", int64(total))
	res.Extra.Add("generator_draws", vrand.Draws)
	res.Extra.Add("clock_reads", vtime.Reads)
	res.Extra.Add("shared_variable_accesses", vrace.Accesses)
	res.Extra.Add("atomic_operations", vatomic.Ops)
	res.Extra.Add("tasks", int64(n))
	return res
}
