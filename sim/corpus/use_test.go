package use

import (
	"errors"
	"testing"

	"go.lstv.dev/util/internal/vsim/core"
	"go.lstv.dev/util/internal/vsim/sched"
	"go.lstv.dev/util/internal/vsim/vcontext"
	"go.lstv.dev/util/internal/vsim/vrace"
	"go.lstv.dev/util/xs/errgroup"
	"go.lstv.dev/util/xs/semaphore"
	"go.lstv.dev/util/xs/singleflight"
)

const seeds = 400

func run(t *testing.T, n int, setup func(), body func(s *sched.Sim, task int)) (flagged int, first string) {
	t.Helper()
	vrace.Enabled = true
	for seed := uint64(0); seed < seeds; seed++ {
		tape := core.NewTape(core.Mix(seed, t.Name(), 0))
		strat := sched.Strategy(tape.Choose(int(sched.NumStrategies)))
		clock := sched.ClockMode(tape.Choose(int(sched.NumClockModes)))
		s := sched.New(tape, sched.Config{Strategy: strat, Clock: clock, MaxSteps: 40000})
		if setup != nil {
			setup()
		}
		s.Run(n, nil, func(task int) { body(s, task) })
		if s.Infra != "" {
			t.Fatalf("seed %d: infra: %s", seed, s.Infra)
		}
		if s.Viol != nil {
			flagged++
			if first == "" {
				first = s.Viol.Invariant + ": " + s.Viol.Detail
			}
		}
	}
	return
}

func TestErrgroupWait(t *testing.T) {
	f, first := run(t, 1, nil, func(s *sched.Sim, task int) {
		var g errgroup.Group
		for i := 0; i < 4; i++ {
			id := 10 + i
			g.Go(func() error { vrace.W(id); return nil })
		}
		if err := g.Wait(); err != nil {
			panic(err)
		}
		for i := 0; i < 4; i++ {
			vrace.R(10 + i)
		}
	})
	if f != 0 {
		t.Fatalf("flagged %d: %s", f, first)
	}
}

func TestErrgroupLimitAndContext(t *testing.T) {
	boom := errors.New("boom")
	f, first := run(t, 1, nil, func(s *sched.Sim, task int) {
		g, ctx := errgroup.WithContext(vcontext.Background())
		g.SetLimit(2)
		for i := 0; i < 5; i++ {
			i := i
			g.Go(func() error {
				if i == 2 {
					return boom
				}
				if e := ctx.Err(); e != nil {
					return e
				}
				return nil
			})
		}
		if err := g.Wait(); err != boom {
			panic("want boom")
		}
		if ctx.Err() == nil {
			panic("context not cancelled")
		}
	})
	if f != 0 {
		t.Fatalf("flagged %d: %s", f, first)
	}
}

func TestSemaphoreOne(t *testing.T) {
	var sem *semaphore.Weighted
	f, first := run(t, 4, func() { sem = semaphore.NewWeighted(1) }, func(s *sched.Sim, task int) {
		if err := sem.Acquire(vcontext.Background(), 1); err != nil {
			panic(err)
		}
		vrace.W(1)
		sem.Release(1)
	})
	if f != 0 {
		t.Fatalf("flagged %d: %s", f, first)
	}
}

func TestSemaphoreTwoIsARace(t *testing.T) {
	var sem *semaphore.Weighted
	f, _ := run(t, 4, func() { sem = semaphore.NewWeighted(2) }, func(s *sched.Sim, task int) {
		if err := sem.Acquire(vcontext.Background(), 1); err != nil {
			panic(err)
		}
		vrace.W(1)
		sem.Release(1)
	})
	if f == 0 {
		t.Fatalf("never flagged")
	}
	t.Logf("flagged %d of %d", f, seeds)
}

func TestSingleflight(t *testing.T) {
	var g *singleflight.Group
	f, first := run(t, 4, func() { g = new(singleflight.Group) }, func(s *sched.Sim, task int) {
		v, err, _ := g.Do("k", func() (interface{}, error) {
			vrace.W(7)
			return 42, nil
		})
		if err != nil || v.(int) != 42 {
			panic("bad result")
		}
	})
	if f != 0 {
		t.Fatalf("flagged %d: %s", f, first)
	}
}
