// Package vtime is the drop-in stand-in for package time inside a simulated run: Now reads
// the simulated clock, Sleep advances it. Everything else is the real thing.
package vtime

import (
	"time"

	"go.lstv.dev/util/internal/vsim/sched"
	"go.lstv.dev/util/internal/vsim/vchan"
)

// Types are aliases so values flow freely between real and simulated code.
type (
	Time       = time.Time
	Duration   = time.Duration
	Month      = time.Month
	Weekday    = time.Weekday
	Location   = time.Location
	ParseError = time.ParseError
)

// Constants.
const (
	Nanosecond  = time.Nanosecond
	Microsecond = time.Microsecond
	Millisecond = time.Millisecond
	Second      = time.Second
	Minute      = time.Minute
	Hour        = time.Hour

	January   = time.January
	February  = time.February
	March     = time.March
	April     = time.April
	May       = time.May
	June      = time.June
	July      = time.July
	August    = time.August
	September = time.September
	October   = time.October
	November  = time.November
	December  = time.December

	RFC3339     = time.RFC3339
	RFC3339Nano = time.RFC3339Nano
	Layout      = time.Layout
	ANSIC       = time.ANSIC
	UnixDate    = time.UnixDate
	RubyDate    = time.RubyDate
	RFC822      = time.RFC822
	RFC822Z     = time.RFC822Z
	RFC850      = time.RFC850
	RFC1123     = time.RFC1123
	RFC1123Z    = time.RFC1123Z
	Kitchen     = time.Kitchen
	Stamp       = time.Stamp
	StampMilli  = time.StampMilli
	StampMicro  = time.StampMicro
	StampNano   = time.StampNano
	DateTime    = time.DateTime
	DateOnly    = time.DateOnly
	TimeOnly    = time.TimeOnly

	Sunday    = time.Sunday
	Monday    = time.Monday
	Tuesday   = time.Tuesday
	Wednesday = time.Wednesday
	Thursday  = time.Thursday
	Friday    = time.Friday
	Saturday  = time.Saturday
)

// ParseInLocation is time.ParseInLocation.
func ParseInLocation(layout, value string, loc *Location) (Time, error) {
	return time.ParseInLocation(layout, value, loc)
}

// LoadLocationFromTZData is time.LoadLocationFromTZData.
func LoadLocationFromTZData(name string, data []byte) (*Location, error) {
	return time.LoadLocationFromTZData(name, data)
}

// Locations.
var (
	UTC   = time.UTC
	Local = time.Local
)

// Epoch is where the simulated clock starts (2022-03-04T05:06:07.089Z), in nanoseconds.
const Epoch int64 = 1646370367089000000

// Reads counts clock reads of the current process (probe).
var Reads int64

// Now returns the simulated time.
func Now() Time {
	s := sched.Cur
	if s == nil {
		return time.Unix(0, Epoch).UTC()
	}
	Reads++
	if !s.Aborted() {
		s.Yield(sched.KNow, 0)
	}
	return time.Unix(0, Epoch+s.NowNs).UTC()
}

// Since is time.Since on the simulated clock.
func Since(t Time) Duration { return Now().Sub(t) }

// Until is time.Until on the simulated clock.
func Until(t Time) Duration { return t.Sub(Now()) }

type sleeper struct {
	s  *sched.Sim
	at int64
}

func (w sleeper) Free(t *sched.Task) bool { return w.s.MonoNs >= w.at }
func (w sleeper) Name() string            { return "sleep until the simulated clock reaches its deadline" }

// Sleep blocks the task until the simulated clock has advanced by d. Other tasks run
// meanwhile; when nothing is runnable the scheduler jumps the clock to the next deadline.
func Sleep(d Duration) {
	s := sched.Cur
	if s == nil || s.Aborted() {
		return
	}
	s.YieldHint()
	s.Yield(sched.KSleep, 0)
	if d <= 0 || s.Aborted() {
		return
	}
	w := sleeper{s, s.MonoNs + int64(d)}
	s.AddTimer(int64(d), func() {})
	s.BlockOn(w, 0)
}

// After returns a channel that receives the simulated time once d has passed.
func After(d Duration) *vchan.Chan[Time] {
	c := vchan.Make[Time](1)
	s := sched.Cur
	if s == nil || s.Aborted() {
		return c
	}
	s.AddTimer(int64(d), func() { c.TrySendFromTimer(time.Unix(0, Epoch+s.NowNs).UTC()) })
	return c
}

// Timer is a one-shot simulated timer.
type Timer struct {
	C       *vchan.Chan[Time]
	stopped *bool
	f       func() // AfterFunc timers
}

// Reset re-arms the timer to fire after d; it reports whether the timer had been active.
func (t *Timer) Reset(d Duration) bool {
	was := !*t.stopped
	*t.stopped = true // the pending firing, if any, is cancelled
	stopped := new(bool)
	t.stopped = stopped
	c, f := t.C, t.f
	sched.AddTimerAnywhere(int64(d), func(s *sched.Sim) {
		if *stopped {
			return
		}
		*stopped = true
		if f != nil {
			sched.GoFromTimer(f)
		} else {
			c.TrySendFromTimer(time.Unix(0, Epoch+s.NowNs).UTC())
		}
	})
	return was
}

// NewTimer returns a timer that fires after d.
func NewTimer(d Duration) *Timer {
	c := vchan.Make[Time](1)
	stopped := new(bool)
	sched.AddTimerAnywhere(int64(d), func(s *sched.Sim) {
		if !*stopped {
			*stopped = true
			c.TrySendFromTimer(time.Unix(0, Epoch+s.NowNs).UTC())
		}
	})
	return &Timer{C: c, stopped: stopped}
}

// Stop prevents the timer from firing; it reports whether it did.
func (t *Timer) Stop() bool {
	was := !*t.stopped
	*t.stopped = true
	return was
}

// Ticker is a simulated periodic timer.
type Ticker struct {
	C       *vchan.Chan[Time]
	stopped *bool
	d       int64
}

// NewTicker returns a ticker with period d (ticks are dropped if nobody receives, as in Go).
func NewTicker(d Duration) *Ticker {
	if d <= 0 {
		panic("non-positive interval for NewTicker")
	}
	t := &Ticker{C: vchan.Make[Time](1), stopped: new(bool), d: int64(d)}
	t.arm()
	return t
}

func (t *Ticker) arm() {
	sched.AddTimerAnywhere(t.d, func(s *sched.Sim) {
		if *t.stopped {
			return
		}
		t.C.TrySendFromTimer(time.Unix(0, Epoch+s.NowNs).UTC())
		t.arm()
	})
}

// Stop turns the ticker off.
func (t *Ticker) Stop() { *t.stopped = true }

// Reset changes the period.
func (t *Ticker) Reset(d Duration) { t.d = int64(d) }

// Tick is time.Tick.
func Tick(d Duration) *vchan.Chan[Time] {
	if d <= 0 {
		return nil
	}
	return NewTicker(d).C
}

// AfterFunc runs f on its own simulated goroutine after d.
func AfterFunc(d Duration, f func()) *Timer {
	stopped := new(bool)
	sched.AddTimerAnywhere(int64(d), func(s *sched.Sim) {
		if !*stopped {
			*stopped = true
			sched.GoFromTimer(f)
		}
	})
	return &Timer{C: nil, stopped: stopped, f: f}
}

// Pass-throughs.
func Unix(sec, nsec int64) Time { return time.Unix(sec, nsec) }
func UnixMilli(ms int64) Time   { return time.UnixMilli(ms) }
func UnixMicro(us int64) Time   { return time.UnixMicro(us) }
func Date(year int, month Month, day, hour, min, sec, nsec int, loc *Location) Time {
	return time.Date(year, month, day, hour, min, sec, nsec, loc)
}
func Parse(layout, value string) (Time, error)    { return time.Parse(layout, value) }
func ParseDuration(s string) (Duration, error)    { return time.ParseDuration(s) }
func FixedZone(name string, offset int) *Location { return time.FixedZone(name, offset) }
func LoadLocation(name string) (*Location, error) { return time.LoadLocation(name) }
